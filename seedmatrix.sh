#!/bin/bash
# seedmatrix.sh [names...] — for each seeded change: apply to /repo, run every property's rules in one
# process (./check matrix: no evidence is written), record the failing rule/constructs in
# /verif/seeded/<name>/detected.txt, undo.
set -u
cd /verif
NAMES=${@:-$(ls seeded)}
./check setup >/dev/null 2>&1
for n in $NAMES; do
  P=/verif/seeded/$n/patch.diff
  [ -f $P ] || continue
  (cd /repo && git diff --quiet) || { echo "/repo not clean"; exit 2; }
  git -C /repo apply $P || { echo "$n: patch does not apply"; continue; }
  ./check matrix 2>&1 | grep -E "FAIL|UNDECIDED" | sed 's/^ *//' > seeded/$n/detected.txt
  git -C /repo checkout -- .
  echo "== $n: $(cut -d' ' -f1 seeded/$n/detected.txt | sort -u | tr '\n' ' ') :: $(awk '{print $3}' seeded/$n/detected.txt | cut -d/ -f1 | sort -u | tr '\n' ' ')"
done
git -C /repo status --short | head -3
