#!/usr/bin/env python3
"""seedmeta.py — (re)writes /verif/seeded/<name>/meta.json from the agent's meta, my confirmation (confirm.txt) and
the detection record (detected.txt, written by seedmatrix.sh)."""
import json, os, glob
for d in sorted(glob.glob('/verif/seeded/*')):
    n = os.path.basename(d)
    det = []
    if os.path.exists(d + '/detected.txt'):
        det = [l.split()[2] for l in open(d + '/detected.txt') if len(l.split()) >= 3]
    rules = sorted(set(k.split('/')[0] for k in det))
    mp = d + '/meta.json'
    m = {}
    if os.path.exists(mp):
        m = json.load(open(mp))
    if not m.get('summary') and os.path.exists(d + '/agent_meta.json'):
        am = json.load(open(d + '/agent_meta.json'))
        conf = ''
        if os.path.exists(d + '/confirm.txt'):
            conf = open(d + '/confirm.txt').read().strip().splitlines()[-1]
        w = 'FAIL' if 'W=1' in conf or 'W=2' in conf else '?'
        wo = 'PASS' if 'WO=0' in conf else '?'
        m = {"property": am.get("property", n.split('-')[0]), "name": n,
             "summary": am.get("summary", ""), "why_it_breaks": am.get("why_it_breaks", ""),
             "needs_to_manifest": am.get("needs_to_manifest", ""),
             "confirmed_by_me": {"scratch_worktree": "/tmp/confirm/%s (removed)" % n,
                                 "demo_with_change": w, "demo_without_change": wo, "raw": conf,
                                 "commands": ["seedtest.sh / confirm2.sh (git apply patch.diff; go build ./...; go test -run <demo>; git apply -R; go test -run <demo>)",
                                              "seedmatrix.sh (git -C /repo apply; ./check matrix; git -C /repo checkout -- .)"]},
             "files_changed": am.get("files_changed", [])}
    m["detected_by"] = rules
    m["detected_constructs"] = det
    json.dump(m, open(mp, 'w'), indent=1)
    print(n, rules)
