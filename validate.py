#!/opt/veriftools/pyvenv/bin/python
import json, jsonschema, glob, sys
m=json.load(open('/verif/MANIFEST.json')); s=json.load(open('/root/.vp/MANIFEST.schema.json'))
jsonschema.validate(m,s); print("manifest ok; claimed", len(m['checks']), "n/a", len(m.get('not_applicable',[])))
es=json.load(open('/root/.vp/EVIDENCE.schema.json'))
for c in m['checks']:
    try:
        e=json.load(open(c['evidence_file'])); jsonschema.validate(e,es)
        assert e['level']==c['level_claimed']['category'], (e['level'], c['level_claimed']['category'])
        print(" evidence ok", c['property_id'], e['tier'], e['coverage'].get('obligations'), e['coverage'].get('discharged'))
    except Exception as ex:
        print(" EVIDENCE PROBLEM", c['property_id'], str(ex)[:200])
