#!/bin/bash
# seedcheck.sh <name> [ids...] — apply /verif/seeded/<name>/patch.diff to /repo, run checks, undo.
set -u
NAME=$1; shift
P=/verif/seeded/$NAME/patch.diff
cd /repo && git diff --quiet || { echo "/repo not clean"; exit 2; }
git -C /repo apply $P || { echo "patch does not apply"; exit 3; }
IDS=${@:-$(python3 -c "import json;print(' '.join(c['property_id'] for c in json.load(open('/verif/MANIFEST.json'))['checks']))")}
cd /verif
for id in $IDS; do
  out=$(./check $id quick 2>&1); code=$?
  echo "$id exit=$code $(echo "$out" | grep -c '^VIOLATION') violation(s)"
  echo "$out" | grep -E "^  FAIL|UNDECIDED" | cut -c1-260 | head -8
done
git -C /repo checkout -- . ; git -C /repo status --short | head -3
# restore evidence files to the clean-tree state
