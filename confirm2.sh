#!/bin/bash
# confirm2.sh <ID> [base=/tmp/wtout2] [wt=/tmp/wt2] — confirm a round-2 seed: derive demo placement from the agent's
# worktree (untracked files with the same basename), run seedtest.sh (demo with / without the change), archive as <ID>-b.
ID=$1; BASE=${2:-/tmp/wtout2}; WT=${3:-/tmp/wt2}; SUF=${4:-b}
files=""; names=""; dirs=""
for f in $BASE/$ID/*.go; do
  [ -f "$f" ] || continue
  b=$(basename $f)
  dst=$(cd $WT/$ID 2>/dev/null && git status --porcelain --untracked-files=all | awk '{print $2}' | grep "/$b\$" | head -1)
  # fall back to the path named in demo_path.txt / meta.json
  [ -z "$dst" ] && dst=$(grep -ho "[A-Za-z0-9_./-]*/$b" $BASE/$ID/demo_path.txt $BASE/$ID/meta.json 2>/dev/null | grep -v "^/" | head -1)
  [ -z "$dst" ] && dst=$(grep -ho "[A-Za-z0-9_./-]*/$b" $BASE/$ID/demo_path.txt $BASE/$ID/meta.json 2>/dev/null | sed "s#^/tmp/wt[0-9]*/$ID/##" | head -1)
  [ -z "$dst" ] && { echo "cannot place $b"; continue; }
  files="$files $b:$dst"
  d=$(dirname $dst)
  dirs="$dirs ./$d/"
  n=$(grep -ho '^func Test[A-Za-z0-9_]*' $f | sed 's/func //' | tr '\n' '|' | sed 's/|$//')
  [ -n "$n" ] && names="$names|$n"
done
names=${names#|}
dirs=$(echo $dirs | tr ' ' '\n' | sort -u | tr '\n' ' ')
echo "DEMOFILES=$files"; echo "RUN: go test -vet=off -count=1 -run '^($names)\$' $dirs"
SRCBASE=$BASE SKIPSUITE=${SKIPSUITE:-1} DEMOFILES="$files" DEMORUN="go test -vet=off -count=1 -run '^($names)\$' $dirs" /verif/seedtest.sh $ID $ID-$SUF 2>&1 | tail -12
