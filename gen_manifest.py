#!/usr/bin/env python3
"""Generates /verif/MANIFEST.json from the table below (kept in one place so the
manifest stays valid while checks are added)."""
import json, sys

CLAIMED = {
 "C18": dict(
   category="proof",
   text="Complete static proof: the SSA of ByzantineMajority/ByzantineMinority is evaluated symbolically over residue classes n=3q+r (linear forms a*q+b, big-integer range checks), giving the exact closed form for every n in [1,2^64-1]; minimality, quorum-intersection and non-blocking are linear inequalities checked per class; n=0 must panic. Every production comparison against a threshold is checked for >=/< orientation.",
   design_ref="DESIGN.md §4 C18",
   note="Trusted: go/ssa translation of the two functions, the ~250-line RLIN evaluator, math/big. An arithmetic operator outside {+,-,*const,/const,%const, comparisons uniform per class} is reported as a failed obligation, not silently accepted.",
   technique="residue-linear symbolic evaluation of SSA (abstract interpretation over linear forms) + comparison-orientation census",
 ),
}

NOT_APPLICABLE = {
 "C03": "Agreement between different engine instances under every network schedule and Byzantine strategy: no per-function, per-package or call-graph rule expresses it. Its per-node necessary conditions are exactly the clauses claimed under C01, C02, C05, C06 and C18; repeating them here would relabel those checks, not decide agreement (DESIGN.md §1).",
}

PENDING = {}

def main():
    props = [json.loads(l) for l in open('/verif/properties.jsonl')]
    checks = []
    na = []
    for p in props:
        pid = p['id']
        if pid in CLAIMED:
            c = CLAIMED[pid]
            checks.append({
                "property_id": pid,
                "quick_cmd": f"./check {pid} quick",
                "thorough_cmd": f"./check {pid} thorough",
                "evidence_file": f"/verif/evidence/{pid}.json",
                "replay_cmd_template": "./check replay {path}",
                "engine": "gverif",
                "level_claimed": {"category": c['category'], "text": c['text'], "design_ref": c['design_ref']},
                "level_note": c['note'],
                "technique": c['technique'],
            })
        elif pid in NOT_APPLICABLE:
            na.append({"property_id": pid, "reason": NOT_APPLICABLE[pid]})
        else:
            na.append({"property_id": pid, "reason": PENDING.get(pid, "static check designed in DESIGN.md §4 but not yet built/armed in this commit; not claimed until its rules run clean and are self-tested")})
    m = {
        "version": 1,
        "setup_cmd": "./check setup",
        "hooks": {
            "guard": "none",
            "enable": "static analysis needs no hooks: checks load /repo's working tree with go/packages (default build configuration; thorough tier also -tags debug)",
            "baseline_off_cmd": "cd /repo && PATH=/opt/veriftools/go1.26.8/bin:$PATH GOTOOLCHAIN=local GOFLAGS=-mod=mod GOPROXY=off GOSUMDB=off go test -vet=off -count=1 -timeout 25m ./...",
            "source_commits": [],
            "add_only": True,
        },
        "engines": [{
            "name": "gverif",
            "path": "/verif/tool",
            "serves_properties": [c['property_id'] for c in checks],
            "kind_free_text": "custom static analyser over go/packages + go/types + go/ssa (x/tools v0.50.0, go1.26.8): canonical value shapes, guard/edge-dominance on the SSA CFG, who-may-call / who-may-write, enum flow, lockset, residue-linear evaluation; one sub-command per property",
        }],
        "checks": checks,
        "not_applicable": na,
        "notes": "All checks are static: they re-load and type-check /repo's working tree on every run and never execute it. Exit 0 = all obligations discharged (known findings printed as KNOWN-FINDING lines), exit 1 = VIOLATION line(s), exit 2 = UNDECIDED (tool could not load/resolve). See DESIGN.md.",
    }
    json.dump(m, open('/verif/MANIFEST.json', 'w'), indent=1)
    print("claimed:", [c['property_id'] for c in checks])

main()
