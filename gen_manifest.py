#!/usr/bin/env python3
"""Generates /verif/MANIFEST.json from the table below (kept in one place so the
manifest stays valid while checks are added)."""
import json, sys

CLAIMED = {
 "C18": dict(
   category="proof",
   text="Complete static proof: the SSA of ByzantineMajority/ByzantineMinority is evaluated symbolically over residue classes n=3q+r (linear forms a*q+b, big-integer range checks), giving the exact closed form for every n in [1,2^64-1]; minimality, quorum-intersection and non-blocking are linear inequalities checked per class; n=0 must panic. Every production comparison against a threshold is checked for >=/< orientation.",
   design_ref="DESIGN.md §4 C18",
   note="Trusted: go/ssa translation of the two functions, the ~250-line RLIN evaluator, math/big. An arithmetic operator outside {+,-,*const,/const,%const, comparisons uniform per class} is reported as a failed obligation, not silently accepted.",
   technique="residue-linear symbolic evaluation of SSA (abstract interpretation over linear forms) + comparison-orientation census",
 ),
 "C01": dict(
   category="other",
   text="Structural necessary conditions decided exactly on SSA: the sites at which a header becomes committed are enumerated (single caller of the voting->committing shift, writers of the committing header, single caller of SaveCommittedHeader, the replay handler, the catch-up hand-off) and each is shown to be dominated on every CFG path by the majority / non-nil / header-identity / hash / signature / AllValidSignatures checks with the operands the property requires (same vote summary, voting validator set, kernel-supplied previous validator set); verify-before-set in both proof schemes; threshold comparison orientation.",
   design_ref="DESIGN.md §4 C01",
   note="Does not decide cryptographic validity, nor that histories cannot make the guards hold spuriously; relies on C06 for the vote summary. Value shapes ignore intervening mutation of a field (stated limit).",
   technique="who-may-call/who-may-write + guard edge-dominance on SSA CFG with canonical value shapes + provenance of call arguments",
 ),
 "C02": dict(
   category="other",
   text="Decides the single-writer / save-before-send / latch structure that makes a second signature in one (height, round) impossible in a process lifetime: one caller per Signer method; sign -> Save*Action(same signature, target (rlc.H, rlc.R, strategy hash)) -> send on the save's nil-error edge, carrying that signature; recording functions called only in the select case of their per-round channel, which is set nil on every continuing path; channels re-armed only by RoundLifecycle.Reset, itself called only for (H+1,0), (H,R+1) or the start-up position; action values sent only by the recorders or the start-up re-send of a stored action; *RoundLifecycle confined to one goroutine. Each round entrance carries an actions channel made for that entrance, so a queued local vote cannot be filed under a later round.",
   design_ref="DESIGN.md §4 C02",
   note="Across restarts the guarantee rests on the action store's refusal (C16.2) and the start-up proposal suppression; a custom Signer/ActionStore that misbehaves is out of scope.",
   technique="who-may-call, dominance and guard edge-dominance on SSA, value-shape identity of signature/target, post-dominance of the latch store, who-may-write",
 ),
 "C08": dict(
   category="other",
   text="Abstract interpretation of the state machine's event loop SSA (tracked: lifecycle step, step-timer typestate, catching-up mode, round reset, counts of DecidePrecommit/ChooseProposedBlock requests, failure): from every step, every event case of handleLiveEvent is executed abstractly with every untracked branch forked; the transition relation has non-decreasing step rank without a reset, a precommit decision is requested only from a step below awaiting-precommits and moves the round to a precommit step, a prevote choice only from awaiting-proposal and moves past it, at most one of each per round and path. Guards on irreversible actions by edge-dominance: commit begin behind >= ByzantineMajority of precommit power for the most-voted non-nil hash of the same view; finalize requests only from four functions with the most-voted / mirror-supplied header; round advances only behind nil quorum / fully voted / precommit-delay timeout / jump-ahead; height advance only behind a stored finalization or elapsed commit wait with a finalization present; view-update dispatch behind same height, same round, strictly greater version; every step the step function can return handled at round entry (known finding D16).",
   design_ref="DESIGN.md §4 C08",
   note="Not an equivalence proof against a full Tendermint model: vote contents are abstracted, paths after a failed send/store (kernel stopping) are exempt, and the interpreter assumes A-CU (no view for the replayed height while catching up; structural half checked under C12.1). Strategy, driver and mirror behaviour are out of scope.",
   technique="abstract interpretation over go/ssa (finite typestate domain, interprocedural summaries with fixpoint) + guard edge-dominance + enum/case analysis",
 ),
 "C12": dict(
   category="other",
   text="Timer typestate by abstract interpretation of the state machine SSA: the invariant 'timed step <=> StepTimer and CancelTimer set and a timer armed, of the kind belonging to that step; none while catching up' is inductive over every event case of the live and catch-up loops and round entry; on no abstract path is CancelTimer called while nil or a RoundTimer requested while the previous one is still armed. Structurally: StepTimer/CancelTimer always assigned as a pair; RoundTimer used only by the state machine; in the production timer a start request during the running phase may panic only on the default arm of a non-blocking poll of the cancel channel (cancel-then-start succeeds for every schedule: defect D17, fixed), the elapsed channel is closed only in the timer-fired case, cancel closes once via sync.Once, and once the time.Timer value has been received no path waits on that channel again before the timer is re-armed (a second drain would wedge the goroutine). After every arming the goroutine's next wait includes timer.C.",
   design_ref="DESIGN.md §4 C12, §9.8",
   note="Wall-clock behaviour of time.Timer and promptness are not decided. Paths after a failed send/store are exempt (the kernel is stopping). The Go memory model's guarantee that a closed channel is ready in select is trusted.",
   technique="abstract interpretation over go/ssa with a timer typestate + pairing/who-may-call rules + select-case guard analysis of the timer goroutine",
 ),
 "C04": dict(
   category="other",
   text="Decides the single-owner, forward-by-one structure of the mirror position: who may assign heights/rounds of the kernel views and with which values (shift: committing := voting, heights = voting height + 1; swap: exchange, next round = voting round + 1), FindView's equality guards and the untouched-state answer to stale lookups, the two writers of the persisted position and their argument order, save-header-before-position on the commit path (no recorded gap), replay only at the voting height, and whether acceptance compares the predecessor hash (known finding D12).",
   design_ref="DESIGN.md §4 C04",
   note="Does not decide store durability/immutability of the in-memory header store (overwrites by design) nor restart behaviour (C10).",
   technique="who-may-write with address paths, value-shape equality of assigned positions, guard edge-dominance, dominance on the commit path",
 ),
 "C05": dict(
   category="other",
   text="Every route from a network vote message to kernel state (the four mirror handlers, found by the request type they send) passes on every CFG path: validator-set hash equality with the looked-up view, proofs over that view's keys and the handler's own vote kind, AllValidSignatures (direct, via Combine, or and-accumulated) gating the kernel request and every accepted return, length-checked key ids, verify-before-set; kernel side: only the add-vote functions/replay write proof maps, each kind into its own maps with its own recomputation and persistence; prevote/precommit siblings reference no symbol of the other kind.",
   design_ref="DESIGN.md §4 C05",
   note="Does not decide which votes reach views for particular interleavings; cryptography trusted.",
   technique="guard edge-dominance incl. accumulated-flag recognition, value provenance of call arguments, who-may-write, sibling summary comparison",
 ),
 "C06": dict(
   category="other",
   text="Decides the shape of the vote summary computation (per-target sum over set bits with index bound; total counted once per validator via first-seen gate; arg-max with min-hash tie-break), recompute-after-mutation on every path in the kernel (flag-sensitive path walk), threshold coherence (power and available power from one summary, block power indexed by the same kind's most-voted hash) and available-power provenance. The seen-set that makes a validator count once only grows during the summation; a threshold operand is one summary quantity, never a sum of several.",
   design_ref="DESIGN.md §4 C06",
   note="Numeric equality for all inputs and uint64 overflow are not decided.",
   technique="loop-structure and guard analysis on SSA, flag-sensitive all-paths post-dominance, value-shape coherence of comparison operands",
 ),
 "C07": dict(
   category="other",
   text="Decides validator-set provenance: kernel views get their set only from the committed header's NextValidatorSet (shift argument checked at the call site), the swap, or start-up sources (genesis / stored header's NextValidatorSet); available power follows the same set; state machine sets rotate only in CycleFinalization with the documented flow, the finalized set comes only from the driver's response, proposals reach the strategy only through the comparing filter and the node's own proposal carries the same sets. The missing list-vs-hash comparison on proposal acceptance is a recorded known finding (D10).",
   design_ref="DESIGN.md §4 C07",
   note="Application behaviour and arrival order of same-signature copies are not decided.",
   technique="who-may-write with value provenance, guard edge-dominance, value-shape wiring",
 ),
 "C09": dict(
   category="other",
   text="The whole property (no panic or deadlock for every input and schedule) is beyond static reach; decided are enumerable crash/wedge constructs, each a necessary condition: enum flow from the mirror's handlers into both feedback mappers and from kernel producers into the consuming switches whose default panics; a reviewed per-function budget of explicit panic sites over all production packages (new panic => violation; 12 reviewed sites still reachable from peers/schedules are individual known findings); callee preconditions and sibling response fields; bounded reads; no method call on an unchecked interface map lookup; capacity >= 1 at every make site of channels the kernel sends on outside a select; close-once guard of the HeightCommitted channel; constructor discipline (error accumulation, no nil config, documented-required options validated).",
   design_ref="DESIGN.md §4 C09",
   note="Not decided: implicit panics outside these classes, deadlock freedom, slow-consumer liveness, third-party code.",
   technique="interprocedural enum flow vs switch case analysis, panic census with reviewed budget, guard edge-dominance, channel-capacity provenance, doc-comment/validation agreement",
 ),
 "C10": dict(
   category="other",
   text="Crash-point behaviour is not decided; decided are the orderings and guards any crash-consistency argument for this code needs: header saved (error checked) before the persisted position moves on the commit path; write-through of every view change to the round store on the same path; nothing unloadable is persisted; start-up reads position and views from the stores and advances to h+1 exactly under a stored finalization; init-chain only when mirror store uninitialised and no pre-genesis finalization; two writers of finalizations. Also: start-up enters round 0 whenever it moves past an already finalized height, and the shipped round store accepts a replayed header it already recorded, so a replay interrupted between its two store writes can be redelivered after restart.",
   design_ref="DESIGN.md §4 C10, §9.8",
   note="Equivalence of resumed and uninterrupted runs, and durability semantics of user stores, are not decided.",
   technique="dominance/ordering of store writes on SSA, flag-sensitive all-paths post-dominance, guard edge-dominance, who-may-call",
 ),
 "C11": dict(
   category="other",
   text="Decides producer-side discipline for monotone versions and growing views: mutate=>mark on every path, mark = version++ plus Clone() of that same view to both consumers, no kernel-owned view escapes un-cloned, MarkSent in each output case, version-gated offer to the state machine, nil-voted snapshot before the round swap and jump reserved for next-round evidence, consumer-side height/round/version guards.",
   design_ref="DESIGN.md §4 C11",
   note="Relative speeds and eventual delivery are not decided.",
   technique="flag-sensitive all-paths post-dominance, value-shape provenance (Clone), select-case dominance, who-may-call / who-may-write",
 ),
 "C13": dict(
   category="other",
   text="Decides the code-shape conditions the merge laws rest on, for both shipped schemes: verify-before-set at every signature/bit write (and that no other function writes those fields), bounded fixed-width reads of key ids and encoded keys, clone independence field by field, clearing of AllValidSignatures on every rejecting edge, flag tests in the commit-proof finalizer. The algebraic laws themselves (union, idempotence, round trip) quantify over values and are not decided. AddSignature reports success only behind verification (or equality with the stored signature); decoded indexes are bounded strictly; BLS Finalize and ValidateFinalizedProof order rest proofs by the same two-level comparison.",
   design_ref="DESIGN.md §4 C13",
   note="Not decided: set-union/idempotence/round-trip equalities, BLS aggregation arithmetic, combination index encode/decode. Trusted: ed25519/blst Verify, bitset semantics.",
   technique="guard edge-dominance with pre-bound value shapes, who-may-write, bounded-read (length test dominance), composite-literal field freshness",
 ),
 "C14": dict(
   category="other",
   text="Round-trip value equality is not decided. Decided: the encoder's and decoder's field relations are converse and cover every consensus-relevant field (derived fields listed), for headers, proposed/committed headers, commit proofs, validators and both sparse proofs; no wire field whose nil/empty distinction matters carries omitempty (only the variant selector may); the variant written per message kind is the variant decoded through the matching Unmarshal method; fixed-width reads of encoded bytes are length-checked and undecodable messages are ignored by the p2p validator.",
   design_ref="DESIGN.md §4 C14",
   note="encoding/json behaviour and nested library types are trusted; equality of values is not decided.",
   technique="field-relation extraction from SSA stores/literals (incl. locally built slices and maps), struct-tag inspection on the syntax tree, guard edge-dominance, bounded-read analysis",
 ),
 "C15": dict(
   category="other",
   text="Collision resistance trusted. Decided: Block ignores the stored hash and every other header leaf field (incl. each previous-commit signature's key id and bytes) flows into the hashed bytes; no hasher write inside a map loop and collected slices are sorted; a field-sensitive taint analysis shows no block-hash-keyed map is indexed by a formatted/literal key (the defect that dropped commit-proof signatures from the hash, now fixed); format strings have out-of-alphabet delimiters and distinct labels, optional sections nil-guarded; leading lines of proposal/prevote/precommit sign contents (resolved through helper calls with constant arguments) are pairwise disjoint and prefix-free. Sort comparators in the hash functions relate the same component of both elements; bytes assembled in a buffer are not interleaved with direct writes to the hasher.",
   design_ref="DESIGN.md §4 C15",
   note="Injectivity over variable-length fields beyond the delimiter check is not decided.",
   technique="data-flow coverage of hash inputs, field-sensitive formatting taint, constant format-string analysis, interprocedural constant substitution for sign-content heads",
 ),
 "C17": dict(
   category="other",
   text="Decides the structure of the shipped ChattyStrategy: only the three helpers send on the broadcaster channels and only data built from their view parameter; broadcastAll covers all three; diff falls back to a full broadcast unless height and round match; first update broadcast in full; nil-voted-round precommits broadcast on every path with no extra condition (flag-sensitive all-paths); the updates-only predicate does not use the cardinality of a cross-target signer union (defect D19, fixed); previous views replaced after handling. The three parts of a view are diffed independently (every success return evaluated all three change tests, decided path-sensitively), each change test is computed from that kind's proofs and not from the vote summary, and every caller of the updates-only diff guards it with equal height and round of its two arguments.",
   design_ref="DESIGN.md §4 C17",
   note="Completeness for arbitrary update sequences beyond the predicate shape is not decided.",
   technique="who-may-send with payload provenance, guard edge-dominance, all-paths post-dominance from a branch edge",
 ),
 "C19": dict(
   category="other",
   text="For any user-supplied apply/delete functions: append only on the nil-error edge of addTx for that tx against the state selected by isUpdated; returned state threaded into curState; Rebase installs the base, deletes applied, re-applies each remaining tx once in order in a range loop that does not mutate the list, deletes exactly the invalidated ones afterwards and returns them; the four state fields have two writers; the working state is confined to the kernel goroutine with unbuffered request and capacity-1 response channels. The slice handed to readers does not alias the pending list.",
   design_ref="DESIGN.md §4 C19",
   note="Semantics of addTx/txDeleter are not decided; the early error return of Rebase leaves the list as is.",
   technique="guard edge-dominance, loop-structure analysis (range loop, no in-loop mutation), who-may-write, confinement and channel-capacity checks",
 ),
 "C16": dict(
   category="other",
   text="Structural necessary conditions, decided exactly on SSA: lockset dataflow over all 22 methods of the 7 tmmemstore types (every access to a guarded field or anything reached from it under the receiver mutex, writes under Lock, exactly one acquisition per method, so each method is one atomic step); guard dominance for the no-overwrite contracts (double action, key change, finalization overwrite, duplicate validator data); key/value wiring of every map write and load and the documented not-found error on every miss edge.",
   design_ref="DESIGN.md §4 C16",
   note="Decides atomicity-by-locking and the refusal/wiring guards, not full sequential equivalence with a reference model (e.g. the merged header list of RoundStore.LoadRoundState) nor aliasing of slices handed in/out. Trusted: sync.Mutex semantics, go/ssa.",
   technique="lockset dataflow on SSA + guard edge-dominance + value-shape wiring checks",
 ),
 "C20": dict(
   category="other",
   text="Structural necessary conditions decided on SSA: ValidationAccept only on the FeedbackAccepted edge of the feedback mapping and default Ignore; every registered libp2p topic validator returns Accept only for self-originated messages or as the mapping of a ConsensusHandler.Handle* result after a successful decode; the validator is never unregistered outside Disconnect; the in-memory DaisyChain forwards a neighbour's message only on the Handle*==FeedbackAccepted edge; shipped mappers map only acceptance results to FeedbackAccepted. Three genuine defects are recorded as known findings (handler-swap window, nil-handler pass-through x2).",
   design_ref="DESIGN.md §4 C20",
   note="Does not decide libp2p-pubsub's relay behaviour or timing beyond the absence of an unregister call. Trusted: pubsub relays exactly what validators accept.",
   technique="guard edge-dominance on SSA CFG, who-may-call, enum/case analysis of mapping switches, value provenance of forwarded messages",
 ),
}

NOT_APPLICABLE = {
 "C03": "Agreement between different engine instances under every network schedule and Byzantine strategy: no per-function, per-package or call-graph rule expresses it. Its per-node necessary conditions are exactly the clauses claimed under C01, C02, C05, C06 and C18; repeating them here would relabel those checks, not decide agreement (DESIGN.md §1).",
}

PENDING = {}


# clauses added after the fifth round of seeded changes (DESIGN.md §9.10); appended to the claim text
EXTRA = {
 "C01": " Round 5: the commit proof saved with a committed header is a private copy (C01.11, found defect D28, repaired); sign bytes kept by a proof constructor never alias a reused buffer (C01.12).",
 "C02": " Round 5: start-up suppression of a second proposal (C02.10): once our own header is found in the mirror's view or the action store, the strategy is entered only with a nil proposal channel.",
 "C04": " Round 5: every kernel call that moves the voting position is followed by the observer update persisting it on every path that does not propagate an internal failure (C04.10).",
 "C05": " Round 5: stored commit proofs are private copies (C05.9); proofs never keep sign bytes aliased to a reused buffer (C05.10).",
 "C06": " Round 5: reset completeness of recycled views (C06.6): every Reset/ResetForSameHeight clears all fields but the documented height-scoped ones.",
 "C07": " Round 5: the engine gives its mirror the chain's validator set for the initial height, never the external genesis document (C07.6).",
 "C08": " Round 5: every DecidePrecommitRequest send site lies behind a Tendermint trigger on every path (C08.9).",
 "C09": " Round 5: the vote handlers dispatch on a looked-up view id only after the lookup reported ViewFound (C09.11).",
 "C10": " Round 5: restart takes the initial validator set from what the chain recorded (C10.7); the stored commit proof is a private copy that later view recycling cannot empty (C10.8, defect D28 repaired).",
 "C11": " Round 5: the force-send slot is unused in production or cleared on every round entrance (C11.7).",
 "C12": " Round 5: each started timer's elapsed channel is freshly made on every path to the start response (C12.8).",
 "C13": " Round 5: no machine-word product or shift feeds a big.Int of the combination-index arithmetic without an overflow test (C13.8).",
 "C14": " Round 5: no Marshal* result aliases a pooled or reused bytes.Buffer (C14.5, ownership analysis of Buffer.Bytes() aliases with callee retention summaries).",
 "C15": " Round 5: the sign bytes are the whole content the scheme wrote, or every write of the shipped scheme is counted where the helpers cut at the reported count (C15.6).",
 "C16": " Round 5: store map discipline (C16.6): every map update accumulates, is refused when the key is present, rewrites the action record, or is one of three replace-by-contract methods.",
 "C18": " Round 5: no comparison of vote power uses an operand computed by hand arithmetic over a Byzantine threshold (C18.8).",
}

def main():
    props = [json.loads(l) for l in open('/verif/properties.jsonl')]
    checks = []
    na = []
    for p in props:
        pid = p['id']
        if pid in CLAIMED:
            c = CLAIMED[pid]
            checks.append({
                "property_id": pid,
                "quick_cmd": f"./check {pid} quick",
                "thorough_cmd": f"./check {pid} thorough",
                "evidence_file": f"/verif/evidence/{pid}.json",
                "replay_cmd_template": "./check replay {path}",
                "engine": "gverif",
                "level_claimed": {"category": c['category'], "text": c['text'] + EXTRA.get(pid, ""), "design_ref": c['design_ref'] + (", §9.10" if pid in EXTRA else "")},
                "level_note": c['note'],
                "technique": c['technique'],
            })
        elif pid in NOT_APPLICABLE:
            na.append({"property_id": pid, "reason": NOT_APPLICABLE[pid]})
        else:
            na.append({"property_id": pid, "reason": PENDING.get(pid, "static check designed in DESIGN.md §4 but not yet built/armed in this commit; not claimed until its rules run clean and are self-tested")})
    m = {
        "version": 1,
        "setup_cmd": "./check setup",
        "hooks": {
            "guard": "none",
            "enable": "static analysis needs no hooks: checks load /repo's working tree with go/packages (default build configuration; thorough tier also -tags debug)",
            "baseline_off_cmd": "cd /repo && PATH=/opt/veriftools/go1.26.8/bin:$PATH GOTOOLCHAIN=local GOFLAGS=-mod=mod GOPROXY=off GOSUMDB=off go test -vet=off -count=1 -timeout 25m ./...",
            "source_commits": [],
            "add_only": True,
        },
        "engines": [{
            "name": "gverif",
            "path": "/verif/tool",
            "serves_properties": [c['property_id'] for c in checks],
            "kind_free_text": "custom static analyser over go/packages + go/types + go/ssa (x/tools v0.50.0, go1.26.8): canonical value shapes, guard/edge-dominance on the SSA CFG, who-may-call / who-may-write, enum flow, lockset, residue-linear evaluation; one sub-command per property",
        }],
        "checks": checks,
        "not_applicable": na,
        "notes": "All checks are static: they re-load and type-check /repo's working tree on every run and never execute it. Exit 0 = all obligations discharged (known findings printed as KNOWN-FINDING lines), exit 1 = VIOLATION line(s), exit 2 = UNDECIDED (tool could not load/resolve). See DESIGN.md.",
    }
    json.dump(m, open('/verif/MANIFEST.json', 'w'), indent=1)
    print("claimed:", [c['property_id'] for c in checks])

main()
