#!/bin/bash
# runall.sh [quick|thorough] — run every claimed check on the current /repo tree (evidence is rewritten)
cd /verif
T=${1:-quick}
IDS=$(python3 -c "import json;print(' '.join(c['property_id'] for c in json.load(open('/verif/MANIFEST.json'))['checks']))")
rc=0
for id in $IDS; do
  out=$(./check $id $T 2>&1); code=$?
  echo "$id exit=$code $(echo "$out" | tail -1)"
  [ $code -ne 0 ] && { rc=1; echo "$out" | grep -E "FAIL|UNDECIDED|VIOLATION" | head -5; }
done
exit $rc
