#!/bin/bash
# refmatrix.sh <group> [base=/tmp/wtout3] — apply each behaviour-preserving patch to /repo, run every property's rules
# (./check matrix), report any new failure (= false alarm), undo.
G=$1; BASE=${2:-/verif/benign}
cd /verif; ./check setup >/dev/null 2>&1
for p in $BASE/$G/patch_*.diff; do
  (cd /repo && git diff --quiet) || { echo "/repo not clean"; exit 2; }
  git -C /repo apply $p 2>/dev/null || { echo "$(basename $p): does not apply"; continue; }
  out=$(./check matrix 2>&1 | grep -E "FAIL|UNDECIDED|cannot load")
  git -C /repo checkout -- . ; git -C /repo clean -fdq
  if [ -z "$out" ]; then echo "$(basename $p): silent"; else echo "$(basename $p): ALARM"; echo "$out" | sed 's/^/    /' | cut -c1-220; fi
done
