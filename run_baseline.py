#!/usr/bin/env python3
"""Runs the repository's baseline test suite (guard off: there are no hooks) and
compares with /root/.vp/BASELINE.json stable_pass. Usage: run_baseline.py [repo_dir] [pkg-pattern]"""
import json, subprocess, sys, os
repo = sys.argv[1] if len(sys.argv) > 1 else '/repo'
pat = sys.argv[2] if len(sys.argv) > 2 else './...'
env = dict(os.environ, PATH='/opt/veriftools/go1.26.8/bin:' + os.environ['PATH'], GOTOOLCHAIN='local', GOFLAGS='-mod=mod', GOPROXY='off', GOSUMDB='off')
base = json.load(open('/root/.vp/BASELINE.json'))
stable = set(base['stable_pass'])
p = subprocess.run(['go', 'test', '-json', '-vet=off', '-count=1', '-timeout', '25m', pat], cwd=repo, env=env, capture_output=True, text=True)
passed, failed = set(), set()
pkgs = set()
for line in p.stdout.splitlines():
    try:
        e = json.loads(line)
    except Exception:
        continue
    if 'Test' not in e:
        if e.get('Action') in ('pass', 'fail', 'skip'):
            pkgs.add(e['Package'])
        continue
    k = e['Package'] + '::' + e['Test']
    if e['Action'] == 'pass':
        passed.add(k)
    elif e['Action'] == 'fail':
        failed.add(k)
rel = {s for s in stable if s.split('::')[0] in pkgs}
missing = sorted(rel - passed)
print(f"packages={len(pkgs)} passed={len(passed)} failed={len(failed)} stable_in_scope={len(rel)} stable_not_passed={len(missing)}")
for m in missing[:40]:
    print("  NOT PASSED:", m, "(failed)" if m in failed else "(not run)")
for f in sorted(failed - stable)[:20]:
    print("  failed (not in stable set):", f)
sys.exit(1 if missing else 0)
