package main

import (
	_ "embed"
	"go/token"
	"go/types"
	"sort"
	"strconv"
	"strings"

	"golang.org/x/tools/go/ssa"
)

// Units: an anchor function analysed together with the private helpers that
// were split off from it. A helper is folded into its caller when it is a
// closure or an unexported function of the same package that has exactly one
// call site in the whole module and is not used as a value: such a helper is,
// for every path argument, a piece of its caller. Rules that anchor on a
// function with w.AU(fn) then see the helper's instructions as part of the
// anchor, its values rendered in the anchor's terms (parameters replaced by
// the call's arguments, captured variables by their bindings), and guards in
// the anchor dominate what happens inside the helper. This is what makes the
// guard rules indifferent to "extract the tail of a long function" and
// "wrap a block in a closure" refactorings.

// knownFuncs lists the named functions of the tree the rules were written
// against. They are anchors and stay analysed on their own; only functions that
// do not appear here (split off or extracted later) and closures invoked on the
// spot are folded into their single caller.
//
//go:embed known_funcs.txt
var knownFuncsTxt string

var knownFuncs = func() map[string]bool {
	m := map[string]bool{}
	for _, l := range strings.Split(knownFuncsTxt, "\n") {
		if l = strings.TrimSpace(l); l != "" {
			m[l] = true
		}
	}
	return m
}()

type frame struct {
	fn     *ssa.Function
	call   *ssa.Call // the single call site, in the parent
	parent *ssa.Function
}

// curWorld lets the free CFG helpers (Dominates) resolve single-call-site helpers.
var curWorld *World

func (w *World) inlineSites() map[*ssa.Function]*frame {
	if w.inline != nil {
		return w.inline
	}
	w.inline = map[*ssa.Function]*frame{}
	sites := map[*ssa.Function][]*ssa.Call{}
	bad := map[*ssa.Function]bool{}
	for _, fn := range w.AllFuncs {
		for _, b := range fn.Blocks {
			for _, in := range b.Instrs {
				var callVal ssa.Value
				if c := callCommon(in); c != nil {
					callVal = c.Value
					if callee := c.StaticCallee(); callee != nil {
						if call, ok := in.(*ssa.Call); ok {
							sites[callee] = append(sites[callee], call)
						} else {
							bad[callee] = true // go / defer: not a piece of the caller's control flow
						}
					}
				}
				_, isMC := in.(*ssa.MakeClosure)
				for _, op := range in.Operands(nil) {
					if *op == nil || *op == callVal {
						continue
					}
					if _, isFn := (*op).(*ssa.Function); isFn && isMC {
						continue // judged below: a closure created and called on the spot
					}
					switch x := (*op).(type) {
					case *ssa.Function:
						bad[x] = true
					case *ssa.MakeClosure:
						if f, ok := x.Fn.(*ssa.Function); ok {
							bad[f] = true
						}
					}
				}
				// a closure value that is created and not called on the spot
				if mc, ok := in.(*ssa.MakeClosure); ok {
					if f, ok := mc.Fn.(*ssa.Function); ok {
						direct := false
						if refs := mc.Referrers(); refs != nil && len(*refs) == 1 {
							if call, ok := (*refs)[0].(*ssa.Call); ok && call.Call.Value == ssa.Value(mc) {
								direct = true
							}
						}
						if !direct {
							bad[f] = true
						}
					}
				}
			}
		}
	}
	for h, cs := range sites {
		if bad[h] || len(cs) != 1 || h.Blocks == nil {
			continue
		}
		caller := cs[0].Parent()
		if caller == h || fnPkg(h) == nil || fnPkg(caller) == nil || fnPkg(h) != fnPkg(caller) {
			continue
		}
		if h.Parent() == nil {
			if h.Object() == nil || knownFuncs[FuncName(h)] {
				continue
			}
			if h.Object().Exported() {
				// exported names still are private code when the receiver type is unexported or the
				// package is internal to the module
				private := strings.Contains(fnPkg(h).Pkg.Path(), "/internal/")
				if recv := h.Signature.Recv(); recv != nil {
					if tn := typeBaseName(recv.Type()); tn != "" && !token.IsExported(tn) {
						private = true
					}
				}
				if !private {
					continue
				}
			}
			// methods satisfying an interface may be called dynamically
			if h.Signature.Recv() != nil && w.mayBeInvoked(h) {
				continue
			}
		}
		if h.Recover != nil {
			continue
		}
		w.inline[h] = &frame{fn: h, call: cs[0], parent: caller}
	}
	return w.inline
}

// mayBeInvoked: some interface method call in the module has this method's name (conservative).
func (w *World) mayBeInvoked(h *ssa.Function) bool {
	if w.invoked == nil {
		w.invoked = map[string]bool{}
		for _, fn := range w.AllFuncs {
			for _, b := range fn.Blocks {
				for _, in := range b.Instrs {
					if c := callCommon(in); c != nil && c.IsInvoke() {
						w.invoked[c.Method.Name()] = true
					}
				}
			}
		}
	}
	return w.invoked[h.Name()]
}

type unitInfo struct {
	w      *World
	root   *ssa.Function
	frames []*frame
	by     map[*ssa.Function]*frame
	sh     map[*ssa.Function]*Shaper
	rootSh *Shaper
}

// AU is A for an anchor analysed as a unit (see above).
func (w *World) AU(fn *ssa.Function) *FnA {
	curWorld = w
	u := &unitInfo{w: w, root: fn, by: map[*ssa.Function]*frame{}, sh: map[*ssa.Function]*Shaper{}}
	inl := w.inlineSites()
	// helpers whose call chain ends in fn, at most three levels down
	var add func(parent *ssa.Function, depth int)
	add = func(parent *ssa.Function, depth int) {
		if depth > 3 {
			return
		}
		var hs []*frame
		for _, fr := range inl {
			if fr.parent == parent && u.by[fr.fn] == nil && fr.fn != fn {
				hs = append(hs, fr)
			}
		}
		sort.Slice(hs, func(i, j int) bool { return hs[i].call.Pos() < hs[j].call.Pos() })
		for _, fr := range hs {
			u.by[fr.fn] = fr
			u.frames = append(u.frames, fr)
			add(fr.fn, depth+1)
		}
	}
	add(fn, 1)
	sh := w.Shaper(fn)
	if len(u.frames) == 0 {
		return &FnA{w: w, fn: fn, sh: sh}
	}
	sh.unit = u
	u.rootSh = sh
	return &FnA{w: w, fn: fn, sh: sh, unit: u}
}

func valueParent(v ssa.Value) *ssa.Function {
	switch x := v.(type) {
	case *ssa.Parameter:
		return x.Parent()
	case *ssa.FreeVar:
		return x.Parent()
	case ssa.Instruction:
		return x.Parent()
	}
	return nil
}

// ofForeign renders a value that lives in a folded helper in the anchor's terms.
func (u *unitInfo) ofForeign(v ssa.Value, pf *ssa.Function) *Shape {
	fr := u.by[pf]
	hs := u.sh[pf]
	if hs == nil {
		hs = u.w.Shaper(pf)
		u.sh[pf] = hs
	}
	return u.conv(fr, hs.Of(v))
}

func (u *unitInfo) conv(fr *frame, s *Shape) *Shape {
	if s == nil {
		return nil
	}
	switch s.K {
	case "param":
		if i, err := strconv.Atoi(strings.TrimPrefix(s.S, "p")); err == nil && i < len(fr.call.Call.Args) {
			return u.rootSh.Of(fr.call.Call.Args[i])
		}
		return s
	case "free":
		if mc, ok := fr.call.Call.Value.(*ssa.MakeClosure); ok {
			for j, fv := range fr.fn.FreeVars {
				if "^"+fv.Name() == s.S && j < len(mc.Bindings) {
					// captured variables are rendered as their value (loads are transparent in shapes)
					return u.rootSh.load(mc.Bindings[j])
				}
			}
		}
		return s
	}
	if len(s.A) == 0 {
		return s
	}
	n := &Shape{K: s.K, S: s.S, F: s.F}
	for _, c := range s.A {
		n.A = append(n.A, u.conv(fr, c))
	}
	if n.K == "fld" && len(n.A) == 1 {
		return mkFld(n.A[0], n.S)
	}
	return n
}

// blocks lists the blocks of the anchor followed by those of its folded helpers.
func (a *FnA) blocks() []*ssa.BasicBlock {
	out := append([]*ssa.BasicBlock{}, a.fn.Blocks...)
	if a.unit != nil {
		for _, fr := range a.unit.frames {
			out = append(out, fr.fn.Blocks...)
		}
	}
	return out
}

// liftTo returns the instruction of function fn that stands for in: in itself,
// or the call (chain) through which in's folded helper is entered from fn.
func liftTo(in ssa.Instruction, fn *ssa.Function) ssa.Instruction {
	if curWorld == nil {
		return nil
	}
	inl := curWorld.inlineSites()
	for k := 0; k < 5 && in != nil; k++ {
		if in.Parent() == fn {
			return in
		}
		fr := inl[in.Parent()]
		if fr == nil {
			return nil
		}
		in = fr.call
	}
	return nil
}

// Owner returns the function a folded helper belongs to (the top of its
// single-call-site chain), or fn itself.
func (w *World) Owner(fn *ssa.Function) *ssa.Function {
	inl := w.inlineSites()
	for k := 0; k < 5; k++ {
		fr := inl[fn]
		if fr == nil {
			return fn
		}
		fn = fr.parent
	}
	return fn
}

// OwnerIn walks from fn up its single-call-site chain and returns the first
// function whose name satisfies accept (fn itself included), or fn when none does.
// Used by who-may-do-X rules: code split off from a permitted function into a
// private helper with that single caller is still that function's code.
func (w *World) OwnerIn(fn *ssa.Function, accept func(name string) bool) *ssa.Function {
	inl := w.inlineSites()
	cur := fn
	for k := 0; k < 5 && cur != nil; k++ {
		if accept(FuncName(cur)) {
			return cur
		}
		fr := inl[cur]
		if fr == nil {
			break
		}
		cur = fr.parent
	}
	return fn
}

// Folded reports whether fn is analysed as part of its single caller.
func (w *World) Folded(fn *ssa.Function) bool { return w.inlineSites()[fn] != nil }

// CalleeConv returns the analysis of the function called at call together with
// a conversion of its shapes into the caller's terms (the callee's parameters
// replaced by the call's arguments as the caller a sees them). It lets a rule
// state what reaches a sink inside a helper in the terms of the helper's caller,
// whatever the helper's signature looks like.
func (a *FnA) CalleeConv(call ssa.Instruction) (*FnA, func(*Shape) *Shape) {
	c := callCommon(call)
	if c == nil || c.StaticCallee() == nil || c.StaticCallee().Blocks == nil {
		return nil, nil
	}
	callee := c.StaticCallee()
	args := make([]*Shape, len(c.Args))
	for i, arg := range c.Args {
		args[i] = a.sh.Of(arg)
	}
	var conv func(s *Shape) *Shape
	conv = func(s *Shape) *Shape {
		if s == nil {
			return nil
		}
		if s.K == "param" {
			for i := range args {
				if s.S == "p"+strconv.Itoa(i) {
					return args[i]
				}
			}
		}
		if len(s.A) == 0 {
			return s
		}
		n := &Shape{K: s.K, S: s.S, F: s.F}
		for _, ch := range s.A {
			n.A = append(n.A, conv(ch))
		}
		if n.K == "fld" && len(n.A) == 1 {
			return mkFld(n.A[0], n.S)
		}
		return n
	}
	return a.w.A(callee), conv
}

// argsOfType returns the shapes of the values of the given type handed to a call: arguments of that
// type, and fields of that type of struct-literal arguments (a parameter group). Position and
// grouping of parameters do not matter.
func argsOfType(a *FnA, call ssa.Instruction, typeName string) []*Shape {
	c := callCommon(call)
	if c == nil {
		return nil
	}
	var out []*Shape
	for _, arg := range c.Args {
		s := a.sh.Of(arg)
		if TypeName(arg.Type()) == typeName {
			out = append(out, s)
			continue
		}
		t := arg.Type()
		if p, ok := t.Underlying().(*types.Pointer); ok {
			t = p.Elem()
		}
		st, ok := t.Underlying().(*types.Struct)
		if !ok || s.K != "lit" {
			continue
		}
		for i := 0; i < st.NumFields(); i++ {
			if TypeName(st.Field(i).Type()) != typeName {
				continue
			}
			for k, f := range s.F {
				if f == st.Field(i).Name() && k < len(s.A) {
					out = append(out, s.A[k])
				}
			}
		}
	}
	return out
}
