package main

import (
	"fmt"
	"go/token"
	"strings"

	"golang.org/x/tools/go/ssa"
)

func init() {
	register(&PropMeta{
		ID: "C10", Title: "Restart on the same stores resumes without loss or regression",
		Explanation: "Crash-point behaviour itself is not decidable statically. Decided are the write orderings and guards every crash-consistency argument for this code needs: on the commit path the committed header is stored (error checked) before the persisted network position moves, so a crash between the two writes can only leave a position that is behind the stored chain, never a hole; every in-memory change of a view's proposals or votes is written through to the round store on the same path; what is written can be read back (no vote entry without signatures, which the loader rejects); start-up reads its position and views from the stores (mirror position, round state, committed headers, state machine position, and moves to h+1 exactly when a finalization for h is stored); the init-chain request is sent only when the mirror store is uninitialised and no pre-genesis finalization exists; finalizations are written by two functions only and the store refuses overwrites (C16.3).",
		NotDecided:  "equivalence of the resumed run with the uninterrupted one; durability semantics of user-supplied stores",
		Assumptions: []string{"each store write is atomic and durable when it returns"},
		Run:         runC10,
	})
	register(&PropMeta{
		ID: "C11", Title: "View consumers see strictly newer, growing views and end up current",
		Explanation: "Decides the producer-side discipline that makes versions strictly increase and views only grow for each consumer: every kernel function that mutates a view's proposals or proof maps reaches, on every path to its exit, the mark-updated call for that view (flag-sensitive path walk); marking increments the version and publishes a Clone() of that same view to the gossip output and (when the state machine is on that round) to the state machine manager; every VersionedRoundView that leaves the kernel (manager fields, round entrance response, nil-voted round) is a clone, never the kernel's own maps; each kernel output case calls that output's MarkSent; the state machine manager offers a view only when its version exceeds the last sent one and lastSentVersion is written only by MarkSent / MarkFirstSentVersion / Reset; on a nil commit the voting view is snapshotted for gossip before the round swap, and a precommit update is marked before the shift check; the state machine drops updates for other rounds and non-increasing versions.",
		NotDecided:  "relative speeds of kernel and consumers; that every update is eventually read",
		Assumptions: []string{"kernel state is confined to the kernel goroutine"},
		Run:         runC11,
	})
}

func runC10(r *Run) {
	w := r.W
	prod := w.ProdFuncs()
	commitPathOrder(r, "C10.1")
	recomputeAfterMutation(r, "C10.2", []string{"persist"})
	r.Rule("C10.2b", "proposed headers: the append to a view is followed on every path by RoundStore.SaveRoundProposedHeader of the same header; a replayed header is saved (error returned) before it is appended")
	r.Rule("C10.3", "start-up reads: kernel position from MirrorStore.NetworkHeightRound, views from RoundStore.LoadRoundState, committing header from the loaded round state; state machine position from StateMachineStore, advanced to h+1 exactly when a finalization for h is stored")
	r.Rule("C10.4", "init-chain is requested only when the mirror store is uninitialised and no finalization exists at initial height - 1; FinalizationStore.SaveFinalization has exactly two production callers")
	r.Rule("C10.5", "what is persisted can be loaded: no vote entry without signatures is written (the loader rejects it)")

	// ---- C10.2b
	if fn := w.Fn("tmi.Kernel.addProposedHeader"); fn != nil {
		a := w.AU(fn)
		n := 0
		a.Instrs(func(in ssa.Instruction) {
			st, ok := in.(*ssa.Store)
			if !ok || !strings.HasSuffix(a.sh.Of(st.Addr).String(), ".ProposedHeaders") {
				return
			}
			n++
			ok2, wit := AllPathsAfterHit(in, func(x ssa.Instruction) bool {
				c := callCommon(x)
				if c == nil {
					return false
				}
				_, cn := calleeName(c)
				return cn == "tmstore.RoundStore.SaveRoundProposedHeader" && a.sh.Of(c.Args[1]).String() == "p3"
			})
			det := "a proposed header added to a view is written through to the round store"
			if wit != nil {
				det += "; path to " + w.InstrPos(wit) + " skips it"
			}
			r.Check(ok2, "C10.2b", fmt.Sprintf("tmi.Kernel.addProposedHeader#append%d", n), w.InstrPos(in), det)
		})
		if n == 0 {
			r.Fail("C10.2b", "tmi.Kernel.addProposedHeader#append", w.Pos(fn.Pos()), "no append to ProposedHeaders found")
		}
	}
	if fn := w.Fn("tmi.Kernel.handleReplayedHeader"); fn != nil {
		a := w.AU(fn)
		saves := a.CallsTo("tmstore.RoundStore.SaveRoundReplayedHeader")
		n := 0
		a.Instrs(func(in ssa.Instruction) {
			st, ok := in.(*ssa.Store)
			if !ok || !strings.HasSuffix(a.sh.Of(st.Addr).String(), ".ProposedHeaders") {
				return
			}
			n++
			ok2 := false
			for _, sv := range saves {
				e, _ := a.IfEdgesB("($s == nil)", true, Bind{"$s": a.sh.Of(sv.(ssa.Value))}, nil)
				if Dominates(sv, in) && len(e) > 0 && a.EveryPathTakes(in, e) {
					ok2 = true
				}
			}
			r.Check(ok2, "C10.2b", fmt.Sprintf("tmi.Kernel.handleReplayedHeader#append%d", n), w.InstrPos(in), "a replayed header joins the view only after it was saved successfully")
		})
	}
	r.Expect("C10.2b", 2, "proposed header write-through")

	// ---- C10.3
	if fn := w.Fn("tmi.NewKernel"); fn != nil {
		a := w.AU(fn)
		srcs := a.CallsTo("tmstore.MirrorStore.NetworkHeightRound")
		lrs := a.CallsTo("tmstore.RoundStore.LoadRoundState")
		r.Check(len(srcs) == 1, "C10.3", "tmi.NewKernel(position)", w.Pos(fn.Pos()), "the kernel's initial position is read from the mirror store")
		okArgs := false
		for _, c := range lrs {
			h := a.sh.Of(CallArg(c, 2)).String()
			if strings.Contains(h, "NetworkHeightRound") && strings.Contains(h, "CommittingHeight") {
				okArgs = true
			}
		}
		r.Check(okArgs, "C10.3", "tmi.NewKernel(prev-commit-proof)", w.Pos(fn.Pos()), "the previous commit proof of the voting view is rebuilt from the round state stored for the committing height/round")
	}
	if fn := w.Fn("tmi.Kernel.loadInitialView"); fn != nil {
		a := w.AU(fn)
		lrs := a.CallsTo("tmstore.RoundStore.LoadRoundState")
		// the height and round the round state is loaded for are the ones given to the view being built
		ok := len(lrs) == 1
		if ok {
			lh, lr := a.sh.Of(CallArg(lrs[0], 2)).String(), a.sh.Of(CallArg(lrs[0], 3)).String()
			okView := false
			a.Instrs(func(in ssa.Instruction) {
				if st, isSt := in.(*ssa.Store); isSt {
					if b, m := Match("lit:tmconsensus.RoundView{Height:$h,Round:$r,$...}", a.sh.Of(st.Val)); m && b["$h"].String() == lh && b["$r"].String() == lr {
						okView = true
					}
				}
			})
			ok = okView && derivesFromParam(a.sh.Of(CallArg(lrs[0], 2))) && derivesFromParam(a.sh.Of(CallArg(lrs[0], 3)))
		}
		r.Check(ok, "C10.3", "tmi.Kernel.loadInitialView(round-state)", w.Pos(fn.Pos()), "a start-up view is loaded from the round store for its own height and round")
		// loaded votes are re-verified into full proofs of their own kind
		pv := a.CallsTo("tmconsensus.SparseSignatureCollection.ToFullPrevoteProofMap")
		pc := a.CallsTo("tmconsensus.SparseSignatureCollection.ToFullPrecommitProofMap")
		ok2 := len(pv) == 1 && len(pc) == 1
		if ok2 {
			ok2 = strings.Contains(a.sh.Of(CallArg(pv[0], 0)).String(), "LoadRoundState") && strings.HasSuffix(a.sh.Of(CallArg(pv[0], 0)).String(), "#1") &&
				strings.HasSuffix(a.sh.Of(CallArg(pc[0], 0)).String(), "#2")
		}
		r.Check(ok2, "C10.3", "tmi.Kernel.loadInitialView(votes)", w.Pos(fn.Pos()), "stored prevotes and precommits are rebuilt (and so re-verified) as proofs of their own kind")
	}
	if fn := w.Fn("tmstate.StateMachine.sendInitialActionSet"); fn != nil {
		a := w.AU(fn)
		src := a.CallsTo("tmstore.StateMachineStore.StateMachineHeightRound")
		r.Check(len(src) == 1, "C10.3", "tmstate.StateMachine.sendInitialActionSet(position)", w.Pos(fn.Pos()), "the state machine's position is read from its store")
		// round entrance H is h or h+1 with h+1 only under a stored finalization
		for _, s := range a.Sends() {
			if TypeName(s.Val.Type()) != "tmeil.StateMachineRoundEntrance" {
				continue
			}
			v := a.sh.Of(s.Val)
			b, ok := Match("lit:tmeil.StateMachineRoundEntrance{H:$h,$...}", v)
			okH := ok && strings.Contains(b["$h"].String(), "StateMachineHeightRound") && strings.Contains(b["$h"].String(), " + 1)")
			fin, _ := a.IfEdges("(@@tmstore.FinalizationStore.LoadFinalizationByHeight($...)#4 == nil)", true, nil)
			r.Check(okH && len(fin) > 0, "C10.3", "tmstate.StateMachine.sendInitialActionSet(entrance)", w.InstrPos(s.Instr), "the round entered at start-up is the stored position, or the next height when a finalization for the stored height exists")
		}
		// when the height is advanced past the stored one, the round entered is 0 (the stored round
		// belongs to the finished height): on every phi edge carrying h+1 the round's phi carries 0
		var vH, vR ssa.Value
		a.Instrs(func(in ssa.Instruction) {
			st, ok := in.(*ssa.Store)
			if !ok {
				return
			}
			switch lastField(st.Addr) {
			case "tmeil.StateMachineRoundEntrance.H":
				vH = st.Val
			case "tmeil.StateMachineRoundEntrance.R":
				vR = st.Val
			}
		})
		okR, nAdv := false, 0
		if ph, ok := vH.(*ssa.Phi); ok {
			okR = true
			pr, _ := vR.(*ssa.Phi)
			for i, e := range ph.Edges {
				bo, isAdd := e.(*ssa.BinOp)
				if !isAdd || bo.Op != token.ADD {
					continue
				}
				nAdv++
				zero := false
				if pr != nil && pr.Block() == ph.Block() {
					if k, ok := pr.Edges[i].(*ssa.Const); ok {
						if v, ok := constInt(k); ok && v == 0 {
							zero = true
						}
					}
				}
				if k, ok := vR.(*ssa.Const); ok {
					if v, ok := constInt(k); ok && v == 0 {
						zero = true
					}
				}
				okR = okR && zero
			}
		}
		r.Check(okR && nAdv > 0, "C10.3", "tmstate.StateMachine.sendInitialActionSet(entrance-round)", w.Pos(fn.Pos()), "when start-up moves on to the next height because the stored height is already finalized, it enters round 0 of that height, not the stored round")
	}
	r.Expect("C10.3", 6, "start-up reads")

	// ---- C10.4
	if fn := w.Fn("tmengine.Engine.maybeInitializeChain"); fn != nil {
		a := w.AU(fn)
		n := 0
		for _, s := range a.Sends() {
			if TypeName(s.Val.Type()) != "tmdriver.InitChainRequest" {
				continue
			}
			n++
			r.RequireGuards(a, "C10.4", fmt.Sprintf("tmengine.Engine.maybeInitializeChain#initchain%d", n), s.Instr,
				G{Name: "mirror-store-uninitialised", Pattern: "($e == %tmstore.ErrStoreUninitialized)", Holds: true, Filter: func(b Bind) bool { return strings.Contains(b["$e"].String(), "NetworkHeightRound") }},
				G{Name: "no-pregenesis-finalization", Pattern: "(@@tmstore.FinalizationStore.LoadFinalizationByHeight($...)#4 == nil)", Holds: false},
			)
		}
		if n == 0 {
			r.Fail("C10.4", "tmengine.Engine.maybeInitializeChain#initchain", w.Pos(fn.Pos()), "no init-chain request found")
		}
	}
	savers := w.CallersOf(prod, "tmstore.FinalizationStore.SaveFinalization")
	r.Check(len(savers) == 2, "C10.4", "callers(SaveFinalization)", "", fmt.Sprintf("%v", uniqueFns(savers)))
	r.Rule("C10.8", "the commit proof saved with a committed header is a private copy: the kernel recycles and clears its view maps in place, so a proof handed to the store by reference is emptied (or refilled with another height's signatures) by a later shift and the stored certificate is lost for the next restart")
	storedCommitProofIsPrivate(r, "C10.8")
	r.Rule("C10.7", "restart resumes with the validator set the chain recorded: the engine's mirror configuration takes it from the InitChain result or the stored pre-initial finalization, never from the external genesis document")
	engineInitialValidatorSet(r, "C10.7")
	r.Expect("C10.4", 3, "init-chain guards")

	// ---- C10.5
	if fn := w.Fn("tmi.mapToSparseSignatureCollection"); fn != nil {
		a := w.AU(fn)
		n := 0
		a.Instrs(func(in ssa.Instruction) {
			up, ok := in.(*ssa.MapUpdate)
			if !ok {
				return
			}
			if ld, isLd := up.Map.(*ssa.UnOp); !isLd || lastField(ld.X) != "tmconsensus.SparseSignatureCollection.BlockSignatures" {
				return
			}
			n++
			e, _ := a.IfEdges("(@len($sp.Signatures) == 0)", false, nil)
			r.Check(len(e) > 0 && a.EveryPathTakes(in, e), "C10.5", fmt.Sprintf("tmi.mapToSparseSignatureCollection#entry%d", n), w.InstrPos(in),
				"an entry is written for a proof without checking that it has signatures; SparseSignatureCollection.toFullProofMap panics on an entry with zero signatures at the next start-up")
		})
	}
	for _, name := range []string{"tmi.Kernel.addFuturePrevote", "tmi.Kernel.addFuturePrecommit"} {
		fn := w.Fn(name)
		if fn == nil {
			continue
		}
		a := w.AU(fn)
		// future votes are written only when signatures increased
		var inc []Edge
		for _, b := range a.blocks() {
			if len(b.Instrs) == 0 {
				continue
			}
			if ifi, ok := b.Instrs[len(b.Instrs)-1].(*ssa.If); ok && len(b.Succs) == 2 {
				p := NormPred(a.sh.Of(ifi.Cond))
				if p.Op == "" && strings.Contains(p.L.String(), "IncreasedSignatures") {
					succ := 0
					if p.Neg {
						succ = 1
					}
					inc = append(inc, Edge{b, succ})
				}
			}
		}
		for i, c := range a.CallsTo("tmstore.RoundStore.OverwriteRoundPrevoteProofs", "tmstore.RoundStore.OverwriteRoundPrecommitProofs") {
			r.Check(len(inc) > 0 && a.EveryPathTakes(c, inc), "C10.5", fmt.Sprintf("%s#persist%d", name, i+1), w.InstrPos(c), "future votes are persisted only when the merge added signatures")
		}
	}
	r.Expect("C10.5", 3, "persisted collections")

	// ---- C10.6 redelivery after a crash: a replay writes the replayed header, then the precommits.
	// A stop between the two leaves the header recorded; after restart the same replay is delivered
	// again and repeats the first write, which therefore must not be refused because the header is
	// already in the replayed list (only a clash with a *proposed* header of that hash is refused).
	r.Rule("C10.6", "the shipped round store accepts a replayed header it has already recorded (a replay interrupted between its two store writes is redelivered after restart); the kernel issues the replayed-header write before the precommit write")
	if fn := w.Fn("tmmemstore.RoundStore.SaveRoundReplayedHeader"); fn != nil {
		a := w.AU(fn)
		bad := ""
		for _, ret := range a.Returns() {
			if k, ok := ret.Results[0].(*ssa.Const); ok && k.IsNil() {
				continue
			}
			for _, b := range a.blocks() {
				ifi, ok := b.Instrs[len(b.Instrs)-1].(*ssa.If)
				if !ok || !strings.Contains(a.sh.Of(ifi.Cond).String(), ".replayedHeaders") {
					continue
				}
				for succ := 0; succ < 2; succ++ {
					if a.EveryPathTakes(ret, []Edge{{b, succ}}) {
						bad = w.InstrPos(ifi)
					}
				}
			}
		}
		r.Check(bad == "", "C10.6", "tmmemstore.RoundStore.SaveRoundReplayedHeader(idempotent)", w.Pos(fn.Pos()), "an error return depends on the header already being in the replayed list (test at "+bad+"): the redelivered replay after a crash between the two writes is refused for ever")
	} else {
		r.Fail("C10.6", "tmmemstore.RoundStore.SaveRoundReplayedHeader", "", "function not found")
	}
	if fn := w.Fn("tmi.Kernel.handleReplayedHeader"); fn != nil {
		a := w.AU(fn)
		saves := a.CallsTo("tmstore.RoundStore.SaveRoundReplayedHeader")
		writes := a.CallsTo("tmstore.RoundStore.OverwriteRoundPrecommitProofs")
		ok := len(saves) >= 1 && len(writes) >= 1
		for _, wr := range writes {
			for _, sv := range saves {
				if ReachesAfter(wr, sv) && !ReachesAfter(sv, wr) {
					ok = false
				}
			}
		}
		r.Check(ok, "C10.6", "tmi.Kernel.handleReplayedHeader(write-order)", w.Pos(fn.Pos()), fmt.Sprintf("replayed header saved (%d site) before the precommits are written (%d site)", len(saves), len(writes)))
	}
}

func runC11(r *Run) {
	w := r.W
	fns := tmiFuncs(w)
	recomputeAfterMutation(r, "C11.1", []string{"mark"})
	r.Rule("C11.1b", "a proposed header appended to a kernel view is followed on every path by the mark-updated call")
	r.Rule("C11.2", "Mark*ViewUpdated: version incremented, gossip copy is Clone() of the same view, state machine copy set from the same view; Version is written only there (and reset/start-up)")
	r.Rule("C11.3", "no aliasing: every VersionedRoundView stored into a manager field, a response or the nil-voted slot is the result of Clone()")
	r.Rule("C11.4", "send discipline: each kernel output case calls that output's MarkSent; the state machine manager offers a view only under Version > lastSentVersion; lastSentVersion is written only by MarkSent, MarkFirstSentVersion and Reset")
	r.Rule("C11.5", "nil-commit delivery: the voting view is cloned into NilVotedRound before the round swap; a precommit update is marked before the shift check; the state machine is told to jump when it is on the round being left")
	r.Rule("C11.6", "consumer side: the state machine drops updates whose height or round differ from its own and updates whose version does not exceed the last one")

	// ---- C11.1b
	if fn := w.Fn("tmi.Kernel.addProposedHeader"); fn != nil {
		a := w.AU(fn)
		n := 0
		a.Instrs(func(in ssa.Instruction) {
			st, ok := in.(*ssa.Store)
			if !ok || !strings.HasSuffix(a.sh.Of(st.Addr).String(), ".ProposedHeaders") {
				return
			}
			n++
			ok2, _ := AllPathsAfterHit(in, func(x ssa.Instruction) bool {
				c := callCommon(x)
				if c == nil {
					return false
				}
				_, cn := calleeName(c)
				return cn == "tmi.kState.MarkViewUpdated"
			})
			r.Check(ok2, "C11.1b", fmt.Sprintf("tmi.Kernel.addProposedHeader#append%d", n), w.InstrPos(in), "view change must be published")
		})
	}
	r.Expect("C11.1b", 1, "proposed header publication")

	// ---- C11.2
	for _, v := range []struct{ fn, view string }{
		{"tmi.kState.MarkCommittingViewUpdated", "Committing"},
		{"tmi.kState.MarkVotingViewUpdated", "Voting"},
		{"tmi.kState.MarkNextRoundViewUpdated", "NextRound"},
	} {
		fn := w.Fn(v.fn)
		if fn == nil {
			r.Fail("C11.2", v.fn, "", "function not found")
			continue
		}
		a := w.AU(fn)
		inc, clone, other := false, false, false
		a.Instrs(func(in ssa.Instruction) {
			st, ok := in.(*ssa.Store)
			if !ok {
				return
			}
			addr := a.sh.Of(st.Addr).String()
			val := a.sh.Of(st.Val).String()
			switch addr {
			case "p0." + v.view + ".Version":
				if val == "(p0."+v.view+".Version + 1)" {
					inc = true
				}
			case "p0.GossipViewManager." + v.view + ".VRV":
				if val == "@tmconsensus.VersionedRoundView.Clone(p0."+v.view+")" {
					clone = true
				} else {
					other = true
				}
			}
		})
		smOK := true
		for _, c := range a.CallsTo("tmi.stateMachineViewManager.SetView", "tmi.stateMachineViewManager.JumpToRound") {
			if a.sh.Of(CallArg(c, 1)).String() != "p0."+v.view {
				smOK = false
			}
			if v.view == "NextRound" {
				smOK = false
			}
		}
		r.Check(inc && clone && !other && smOK, "C11.2", v.fn, w.Pos(fn.Pos()), fmt.Sprintf("version++: %v, gossip copy is Clone of %s: %v, state machine copy from the same view: %v", inc, v.view, clone, smOK))
	}
	allowedVersion := map[string]bool{"tmi.kState.MarkCommittingViewUpdated": true, "tmi.kState.MarkVotingViewUpdated": true, "tmi.kState.MarkNextRoundViewUpdated": true, "tmi.View.UpdateOutgoing": true}
	for _, fw := range w.FieldWrites(fns, "tmconsensus.VersionedRoundView", "Version") {
		if fw.Kind != "store" {
			continue
		}
		fnn := FuncName(fw.Fn)
		if st, ok := fw.Instr.(*ssa.Store); ok && writesCallerOwnedView(w, fw.Fn, st.Addr) {
			continue // snapshot copy for a caller
		}
		r.Check(allowedVersion[fnn], "C11.2", "write(Version)@"+fnn, w.InstrPos(fw.Instr), "view versions are advanced only by the mark-updated functions")
	}
	r.Expect("C11.2", 6, "mark functions and version writers")

	// ---- C11.3
	isClone := func(s *Shape) bool {
		if s.K == "un" && s.S == "&" {
			s = s.A[0]
		}
		return s.K == "call" && (s.S == "tmconsensus.VersionedRoundView.Clone" || s.S == "tmconsensus.RoundView.Clone")
	}
	ord := Ord{}
	for _, fn := range fns {
		a := w.A(fn)
		a.Instrs(func(in ssa.Instruction) {
			st, ok := in.(*ssa.Store)
			if !ok {
				return
			}
			var what string
			switch lastField(st.Addr) {
			case "tmi.gossipViewManager.NilVotedRound", "tmi.stateMachineViewManager.jumpAhead", "tmi.stateMachineViewManager.outgoingView", "tmi.OutgoingView.VRV":
				what = lastField(st.Addr)
			default:
				return
			}
			v := a.sh.Of(st.Val)
			if v.String() == "nil" {
				return
			}
			r.Check(isClone(v), "C11.3", ord.Next(FuncName(fn)+"#publish"), w.InstrPos(in), what+" <- "+truncate(v.String(), 120))
		})
		for _, s := range a.Sends() {
			if TypeName(s.Val.Type()) != "tmeil.RoundEntranceResponse" {
				continue
			}
			v := a.sh.Of(s.Val)
			if v.K == "lit" {
				for i, f := range v.F {
					if f == "VRV" {
						r.Check(isClone(v.A[i]), "C11.3", ord.Next(FuncName(fn)+"#entrance-response"), w.InstrPos(s.Instr), "round entrance response carries "+truncate(v.A[i].String(), 100))
					}
				}
			}
		}
	}
	// gossip output values are clones of the manager's copies
	if fn := w.Fn("tmi.gossipViewManager.Output"); fn != nil {
		a := w.AU(fn)
		n := 0
		a.Instrs(func(in ssa.Instruction) {
			st, ok := in.(*ssa.Store)
			if !ok {
				return
			}
			addr := a.sh.Of(st.Addr).String()
			for _, f := range []string{"Committing", "Voting", "NextRound"} {
				if strings.HasSuffix(addr, ".Val."+f) {
					n++
					r.Check(isClone(a.sh.Of(st.Val)), "C11.3", ord.Next("tmi.gossipViewManager.Output#"+f), w.InstrPos(in), "outgoing "+f+" view: "+truncate(a.sh.Of(st.Val).String(), 100))
				}
			}
		})
	}
	r.Expect("C11.3", 9, "published views")

	// ---- C11.4
	if fn := w.Fn("tmi.Kernel.mainLoop"); fn != nil {
		a := w.AU(fn)
		n := 0
		a.Instrs(func(in ssa.Instruction) {
			sel, ok := in.(*ssa.Select)
			if !ok {
				return
			}
			for idx, st := range sel.States {
				if st.Send == nil {
					continue
				}
				n++
				chs := a.sh.Of(st.Chan).String() // e.g. @...Output(...).Ch
				out := strings.TrimSuffix(chs, ".Ch")
				// the case body: blocks dominated by the (index == idx) true edge must call MarkSent on the same output
				marked := false
				for _, c := range a.CallsTo("tmi.stateMachineOutput.MarkSent", "tmi.gossipStrategyOutput.MarkSent", "tmi.lagOutput.MarkSent", "tmi.lagManagerOutput.MarkSent", "tmi.lagStateOutput.MarkSent", "tmi.LagOutput.MarkSent") {
					recv := a.sh.Of(CallArg(c, 0)).String()
					recv = strings.TrimPrefix(strings.TrimSuffix(strings.TrimPrefix(recv, "(&"), ")"), "&")
					if recv == out || strings.Contains(recv, out) || strings.Contains(out, recv) {
						if selCaseGuard(a, c, sel, idx) {
							marked = true
						}
					}
				}
				r.Check(marked, "C11.4", fmt.Sprintf("tmi.Kernel.mainLoop#send-case%d", n), w.InstrPos(in), "after sending on "+truncate(chs, 80)+" the output's MarkSent must run in that case")
			}
		})
	}
	// a round entrance starts the state machine's output afresh: the queued jump-ahead (a snapshot
	// taken for the previous entrance) is dropped and the sent-version is reset on every path
	if fn := w.Fn("tmi.stateMachineViewManager.Reset"); fn != nil {
		a := w.AU(fn)
		want := map[string]string{"tmi.stateMachineViewManager.jumpAhead": "nil", "tmi.stateMachineViewManager.lastSentVersion": "0", "tmi.stateMachineViewManager.roundEntrance": "p1"}
		for f, val := range want {
			ok := false
			a.Instrs(func(in ssa.Instruction) {
				st, isSt := in.(*ssa.Store)
				if !isSt || lastField(st.Addr) != f || a.sh.Of(st.Val).String() != val {
					return
				}
				all := true
				for _, ret := range a.Returns() {
					if !Dominates(in, ret) {
						all = false
					}
				}
				if all {
					ok = true
				}
			})
			// no other value is stored into the field
			a.Instrs(func(in ssa.Instruction) {
				if st, isSt := in.(*ssa.Store); isSt && lastField(st.Addr) == f && a.sh.Of(st.Val).String() != val {
					ok = false
				}
			})
			r.Check(ok, "C11.4", "tmi.stateMachineViewManager.Reset("+strings.TrimPrefix(f, "tmi.stateMachineViewManager.")+")", w.Pos(fn.Pos()), "on every round entrance "+f+" is set to "+val+" unconditionally (a jump-ahead queued for the previous entrance is stale: its version is not newer than the entrance response)")
		}
	} else {
		r.Fail("C11.4", "tmi.stateMachineViewManager.Reset", "", "function not found")
	}
	if fn := w.Fn("tmi.stateMachineViewManager.Output"); fn != nil {
		a := w.AU(fn)
		n := 0
		a.Instrs(func(in ssa.Instruction) {
			st, ok := in.(*ssa.Store)
			if !ok || lastField(st.Addr) != "tmeil.StateMachineRoundView.VRV" {
				return
			}
			v := a.sh.Of(st.Val).String()
			if !strings.Contains(v, "outgoingView") {
				return
			}
			n++
			r.RequireGuards(a, "C11.4", fmt.Sprintf("tmi.stateMachineViewManager.Output#vrv%d", n), in,
				G{Name: "newer-version", Pattern: "(p0.lastSentVersion < p0.outgoingView.Version)", Holds: true},
				G{Name: "same-height", Pattern: "(p0.outgoingView.RoundView.Height == p0.roundEntrance.H)", Holds: true},
				G{Name: "same-round", Pattern: "(p0.outgoingView.RoundView.Round == p0.roundEntrance.R)", Holds: true},
			)
		})
		if n == 0 {
			r.Fail("C11.4", "tmi.stateMachineViewManager.Output#vrv", w.Pos(fn.Pos()), "no VRV assignment from the outgoing view found")
		}
	}
	okW := map[string]bool{"tmi.stateMachineOutput.MarkSent": true, "tmi.stateMachineViewManager.MarkFirstSentVersion": true, "tmi.stateMachineViewManager.Reset": true, "tmi.newStateMachineViewManager": true}
	for _, fw := range w.FieldWrites(fns, "tmi.stateMachineViewManager", "lastSentVersion") {
		if fw.Kind == "store" {
			r.Check(okW[FuncName(fw.Fn)], "C11.4", "write(lastSentVersion)@"+FuncName(fw.Fn), w.InstrPos(fw.Instr), "last sent version bookkeeping")
		}
	}
	r.Rule("C11.8", "clone independence of the published view types: every field is copied, no map/slice field (directly or in a nested view struct) is the receiver's own storage or a re-slice of it, map elements are cloned or freshly made (ValidatorSet is shared on purpose: immutable)")
	viewCloneIndependence(r, "C11.8")
	r.Rule("C11.7", "the force-send slot (offered without a height/round test, its version becoming lastSentVersion) is either never filled in production or cleared on every round entrance, so a view of the round just left cannot be delivered into the next round and suppress its updates")
	forcedViewDiscipline(r, "C11.7")
	r.Expect("C11.4", 8, "send discipline")

	// ---- C11.5
	if fn := w.Fn("tmi.kState.AdvanceVotingRound"); fn != nil {
		a := w.AU(fn)
		var store ssa.Instruction
		a.Instrs(func(in ssa.Instruction) {
			if st, ok := in.(*ssa.Store); ok && strings.HasSuffix(a.sh.Of(st.Addr).String(), "GossipViewManager.NilVotedRound") {
				store = in
			}
		})
		swaps := a.CallsTo("tmi.kState.incrementVotingRound")
		ok := store != nil && len(swaps) == 1 && Dominates(store, swaps[0])
		if ok {
			v := a.sh.Of(store.(*ssa.Store).Val).String()
			ok = strings.Contains(v, "@tmconsensus.VersionedRoundView.Clone(p0.Voting)")
		}
		r.Check(ok, "C11.5", "tmi.kState.AdvanceVotingRound", w.Pos(fn.Pos()), "the nil-voted round is a clone of the voting view taken before the voting/next-round swap")
	}
	if fn := w.Fn("tmi.kState.JumpVotingRound"); fn != nil {
		a := w.AU(fn)
		js := a.CallsTo("tmi.stateMachineViewManager.JumpToRound")
		ok := len(js) == 1
		if ok {
			ok = r.RequireGuards(a, "C11.5", "tmi.kState.JumpVotingRound#jump", js[0],
				G{Name: "same-height", Pattern: "(@tmi.stateMachineViewManager.H($m) == p0.Voting.RoundView.Height)", Holds: true},
				G{Name: "previous-round", Pattern: "(@tmi.stateMachineViewManager.R($m) == (p0.Voting.RoundView.Round - 1))", Holds: true})
			ok = ok && a.sh.Of(CallArg(js[0], 1)).String() == "p0.Voting"
		}
		r.Check(ok, "C11.5", "tmi.kState.JumpVotingRound", w.Pos(fn.Pos()), "the state machine on the round being left is handed the new voting view as a jump-ahead")
	}
	if fn := w.Fn("tmi.Kernel.addPrecommit"); fn != nil {
		a := w.AU(fn)
		marks := a.CallsTo("tmi.kState.MarkViewUpdated")
		shifts := a.CallsTo("tmi.Kernel.checkVotingPrecommitViewShift", "tmi.Kernel.checkNextRoundPrecommitViewShift")
		ok := len(marks) >= 1 && len(shifts) >= 1
		// the precommits that justify leaving the round must be published before the shift drops the view
		for _, s := range shifts {
			reached := false
			for _, m := range marks {
				if ReachesAfter(m, s) {
					reached = true
				}
				if ReachesAfter(s, m) {
					ok = false
				}
			}
			if !reached {
				ok = false
			}
		}
		r.Check(ok, "C11.5", "tmi.Kernel.addPrecommit(mark-before-shift)", w.Pos(fn.Pos()), "the view update carrying the deciding precommits is marked before the view shift is evaluated")
	}
	// who may leave a round, and how: the swap that drops the voting view is reached through
	// AdvanceVotingRound (which first snapshots the view for gossip) whenever the decision rests on the
	// voting round's own precommits; the jump (no snapshot) is reserved for decisions based on votes
	// of a later round / a replayed proof
	prodFns := w.ProdFuncs()
	allowedJump := map[string]bool{"tmi.Kernel.checkPrevoteViewShift": true, "tmi.Kernel.checkNextRoundPrecommitViewShift": true, "tmi.Kernel.handleReplayedHeader": true}
	for _, c := range w.CallersOf(prodFns, "tmi.Kernel.jumpVotingRound") {
		r.Check(allowedJump[FuncName(c.Fn)], "C11.5", "caller(jumpVotingRound)@"+FuncName(c.Fn), w.InstrPos(c.Instr),
			"leaving a round because of its own precommits (nil majority, fully voted) must use advanceVotingRound, which publishes the final votes as the nil-voted round; jumpVotingRound does not")
	}
	for _, c := range w.CallersOf(prodFns, "tmi.kState.JumpVotingRound") {
		r.Check(FuncName(c.Fn) == "tmi.Kernel.jumpVotingRound", "C11.5", "caller(kState.JumpVotingRound)@"+FuncName(c.Fn), w.InstrPos(c.Instr), "only through the kernel's jump helper")
	}
	for _, c := range w.CallersOf(prodFns, "tmi.kState.incrementVotingRound") {
		fnn := FuncName(c.Fn)
		r.Check(fnn == "tmi.kState.AdvanceVotingRound" || fnn == "tmi.kState.JumpVotingRound", "C11.5", "caller(incrementVotingRound)@"+fnn, w.InstrPos(c.Instr), "the voting/next-round swap is reached only through advance or jump")
	}
	r.Expect("C11.5", 10, "nil-commit delivery")

	// ---- C11.6
	checkHandleViewUpdateGuards(r, "C11.6")
}

// selCaseGuard: instruction is reachable only through case idx of the select.
func selCaseGuard(a *FnA, target ssa.Instruction, sel *ssa.Select, idx int) bool {
	var edges []Edge
	for _, b := range a.blocks() {
		if len(b.Instrs) == 0 {
			continue
		}
		ifi, ok := b.Instrs[len(b.Instrs)-1].(*ssa.If)
		if !ok {
			continue
		}
		bo, ok := ifi.Cond.(*ssa.BinOp)
		if !ok {
			continue
		}
		ex, ok := bo.X.(*ssa.Extract)
		if !ok || ex.Index != 0 || ex.Tuple != ssa.Value(sel) {
			continue
		}
		k, ok := bo.Y.(*ssa.Const)
		if !ok {
			continue
		}
		if v, ok := constInt(k); ok && v == idx {
			edges = append(edges, Edge{b, 0})
		}
	}
	return len(edges) > 0 && a.EveryPathTakes(target, edges)
}

// selDefaultGuard: target is reached only through the default arm of the non-blocking select.
func selDefaultGuard(a *FnA, target ssa.Instruction, sel *ssa.Select) bool {
	if sel.Blocking {
		return false
	}
	isTest := func(b *ssa.BasicBlock) bool {
		if len(b.Instrs) == 0 {
			return false
		}
		ifi, ok := b.Instrs[len(b.Instrs)-1].(*ssa.If)
		if !ok {
			return false
		}
		bo, ok := ifi.Cond.(*ssa.BinOp)
		if !ok {
			return false
		}
		ex, ok := bo.X.(*ssa.Extract)
		return ok && ex.Index == 0 && ex.Tuple == ssa.Value(sel)
	}
	var edges []Edge
	for _, b := range a.blocks() {
		if isTest(b) && !isTest(b.Succs[1]) {
			edges = append(edges, Edge{b, 1})
		}
	}
	return len(edges) > 0 && a.EveryPathTakes(target, edges)
}

// checkHandleViewUpdateGuards (C08.6 / C11.6): the step dispatch of the state
// machine's view update handler is dominated by height equality, round
// equality and a strictly greater version.
func checkHandleViewUpdateGuards(r *Run, rule string) {
	w := r.W
	fn := w.Fn("tmstate.StateMachine.handleViewUpdate")
	if fn == nil {
		r.Fail(rule, "handleViewUpdate", "", "function not found")
		return
	}
	a := w.AU(fn)
	n := 0
	for _, c := range a.CallsTo("tmstate.StateMachine.handleProposalViewUpdate", "tmstate.StateMachine.handlePrevoteViewUpdate", "tmstate.StateMachine.handlePrecommitViewUpdate", "tmstate.StateMachine.handleCommitWaitViewUpdate") {
		n++
		_, cn := calleeName(callCommon(c))
		r.RequireGuards(a, rule, fmt.Sprintf("tmstate.StateMachine.handleViewUpdate->%s", strings.TrimPrefix(cn, "tmstate.StateMachine.")), c,
			G{Name: "same-height", Pattern: "(p3.VRV.RoundView.Height == p2.H)", Holds: true},
			G{Name: "same-round", Pattern: "(p3.VRV.RoundView.Round == p2.R)", Holds: true},
			G{Name: "newer-version", Pattern: "(p2.VRV.Version < p3.VRV.Version)", Holds: true},
		)
	}
	if n < 4 {
		r.Fail(rule, "handleViewUpdate(dispatch)", w.Pos(fn.Pos()), fmt.Sprintf("expected 4 step handlers dispatched, found %d", n))
	}
}
