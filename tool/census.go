package main

import (
	"fmt"
	"sort"
	"strings"

	"golang.org/x/tools/go/ssa"
)

// panicCensus counts explicit panic sites per production function in the packages
// whose code runs inside the engine's goroutines or on message-handling paths.
func panicCensus(w *World) map[string][]ssa.Instruction {
	out := map[string][]ssa.Instruction{}
	for _, fn := range w.ProdFuncs() {
		for _, b := range fn.Blocks {
			for _, in := range b.Instrs {
				if p, ok := in.(*ssa.Panic); ok {
					out[FuncName(fn)] = append(out[FuncName(fn)], p)
				}
			}
		}
	}
	return out
}

func dumpCensus(w *World) {
	c := panicCensus(w)
	var names []string
	for n := range c {
		names = append(names, n)
	}
	sort.Strings(names)
	for _, n := range names {
		var pos []string
		for _, p := range c[n] {
			a := w.A(p.Parent())
			pos = append(pos, w.InstrPos(p)+" "+truncate(a.sh.Of(p.(*ssa.Panic).X).String(), 90))
		}
		fmt.Printf("%s\t%d\t%s\n", n, len(c[n]), strings.Join(pos, " || "))
	}
}

// isSynthPanic reports whether a panic was synthesised by go/ssa.
func isSynthPanic(p *ssa.Panic) bool {
	if mi, ok := p.X.(*ssa.MakeInterface); ok {
		if c, ok := mi.X.(*ssa.Const); ok && c.Value != nil {
			switch c.Value.ExactString() {
			case `"blocking select matched no case"`, `"iterator call did not preserve panic"`, `"yield function called after range loop exit"`:
				return true
			}
		}
	}
	return false
}
