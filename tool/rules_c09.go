package main

import (
	"fmt"
	"sort"
	"strings"

	"golang.org/x/tools/go/ssa"
)

func init() {
	register(&PropMeta{
		ID: "C09", Title: "No configuration, message or schedule can crash or wedge the engine",
		Explanation: "The property as a whole (no panic, no deadlock, for all inputs and schedules) is out of static reach. Decided are enumerable crash/wedge constructs, each a necessary condition: (1) enum flow — every result constant the mirror's handlers can return is mapped by a non-panicking case of both shipped feedback mappers; every status/result/view-id constant a kernel function can produce is handled by the consuming switch whose default panics; (2) a reviewed per-function budget of explicit panic sites over all production packages — a new panic site anywhere is reported, and the reviewed sites that remain reachable from peer messages or schedules are listed one by one as known findings; (3) callee preconditions that panic (empty key set, k = 0, n = 0) are established before the call on message paths; sibling response fields are filled together; (4) bounded reads of peer-supplied bytes; (5) no method call on an unchecked interface-typed map lookup; (6) every channel the kernel sends on outside a select is created with capacity >= 1 at every make site; (7) constructors accumulate every option error, never hand options a nil config, and validate every option documented as required.",
		NotDecided:  "implicit panics outside the listed classes (general nil dereference, slice bounds on internal data, integer overflow), deadlock freedom, slow-consumer liveness, third-party code",
		Assumptions: []string{"SSA-synthesised panics (blocking select, range-over-func protocol) are unreachable"},
		Run:         runC09,
	})
}

// reviewed budget of explicit (non-synthesised) panic sites per production function
var panicBudget = map[string]int{
	"gblsminsig.SignatureProofScheme.Finalize":                      1,
	"gblsminsig.SignatureProofScheme.ValidateFinalizedProof":        1,
	"gblsminsig.SignatureProofScheme.ValidateFinalizedProof$1":      2,
	"gblsminsig.binomialCoefficient":                                1,
	"gblsminsig.decodeCombinationIndex":                             1,
	"gblsminsig.sortRestForFinalizing$1":                            1,
	"gcrypto.NewSimpleCommonMessageSignatureProof":                  1,
	"gtxbuf.Buffer.Initialize":                                      1, // API misuse: Initialize called twice
	"gcrypto.Registry.Marshal":                                      1,
	"gcrypto.Registry.Register":                                     1,
	"gwatchdog.Watchdog.Monitor":                                    1,
	"sigtree.New":                                                   1,
	"tmconsensus.AcceptAllValidFeedbackMapper.HandleProposedHeader": 1,
	"tmconsensus.AcceptAllValidFeedbackMapper.mapVoteResult":        1,
	"tmconsensus.ByzantineMajority":                                 1,
	"tmconsensus.ByzantineMinority":                                 1,
	"tmconsensus.DropDuplicateFeedbackMapper.HandleProposedHeader":  1,
	"tmconsensus.DropDuplicateFeedbackMapper.mapVoteResult":         1,
	"tmconsensus.SparseSignatureCollection.toFullProofMap":          2,
	"tmgossip.ChattyStrategy.kernel":                                1,
	"tmi.Kernel.addFuturePrecommit":                                 1,
	"tmi.Kernel.addFuturePrevote":                                   1,
	"tmi.Kernel.addPrecommit":                                       3,
	"tmi.Kernel.addPrevote":                                         2,
	"tmi.Kernel.addProposedHeader":                                  1,
	"tmi.Kernel.checkNextRoundPrecommitViewShift":                   1,
	"tmi.Kernel.checkPrevoteViewShift":                              1,
	"tmi.Kernel.checkVotingPrecommitViewShift":                      1,
	"tmi.Kernel.handleReplayedHeader":                               2,
	"tmi.Kernel.handleStateMachineAction":                           3,
	"tmi.Kernel.handleStateMachineRoundEntrance":                    2,
	"tmi.Kernel.loadInitialCommittingView":                          3,
	"tmi.Kernel.loadInitialVotingView":                              1,
	"tmi.Kernel.mainLoop":                                           1,
	"tmi.Kernel.sendPHCheckResponse":                                1,
	"tmi.Kernel.sendViewLookupResponse":                             1,
	"tmi.Kernel.setPHCheckStatus":                                   1,
	"tmi.NewKernel":                                                 1,
	"tmi.kState.FindView":                                           1,
	"tmi.kState.MarkViewUpdated":                                    1,
	"tmi.mapToSparseSignatureCollection":                            1,
	"tmi.stateMachineOutput.MarkSent":                               1,
	"tmi.stateMachineViewManager.ForceSend":                         1,
	"tmi.stateMachineViewManager.MarkFirstSentVersion":              1,
	"tmmirror.Mirror.HandlePrevoteProofs":                           2,
	"tmmirror.Mirror.HandleProposedHeader":                          1,
	"tmmirror.Mirror.handleFuturePrecommitProofs":                   1,
	"tmmirror.Mirror.handleFuturePrevoteProofs":                     1,
	"tmmirror.Mirror.handlePrecommitProofs":                         2,
	"tmstate.StandardRoundTimer.background":                         1,
	"tmstate.StateMachine.advance":                                  1,
	"tmstate.StateMachine.beginRoundLive":                           2,
	"tmstate.StateMachine.handleFinalization":                       2,
	"tmstate.StateMachine.handleHeightCommitted":                    1,
	"tmstate.StateMachine.handleJumpAhead":                          2,
	"tmstate.StateMachine.handleProposalViewUpdate":                 3,
	"tmstate.StateMachine.handleTimerElapsed":                       1,
	"tmstate.StateMachine.handleViewUpdate":                         2,
	"tmstate.StateMachine.sendInitialActionSet":                     1,
	"tmstate.StateMachine.startInitialTimer":                        1,
}

// reviewed panic sites that remain reachable from peer input or schedules (known findings)
var reachablePanics = map[string]string{
	"tmi.Kernel.addFuturePrevote":                   "the mirror classified the round as future, the kernel advanced before processing the request: view status is no longer ViewFuture",
	"tmi.Kernel.addFuturePrecommit":                 "the mirror classified the round as future, the kernel advanced before processing the request: view status is no longer ViewFuture",
	"tmi.Kernel.addProposedHeader":                  "a valid proposed header whose previous commit proof lists a block hash (e.g. nil) for which the committing view holds no precommit proof",
	"tmi.Kernel.checkNextRoundPrecommitViewShift":   "more than 2/3 precommit power for one block arrives in the next-round view before the voting round ends",
	"tmi.Kernel.handleReplayedHeader":               "a replayed header whose proof round is below the current voting round",
	"tmi.Kernel.handleStateMachineRoundEntrance":    "the state machine enters a round for which FindView reports neither a view nor before-committing (e.g. a later round of the committing height), or the committed header is missing from the store",
	"tmi.Kernel.mainLoop":                           "an internal (store) error while handling a replayed header",
	"tmstate.StateMachine.beginRoundLive":           "a lagging node enters a round whose vote summary maps to StepPrevoteDelay or StepPrecommitDelay (split >2/3 votes): GetStepFromVoteSummary returns a step the switch does not handle",
	"tmstate.StateMachine.handleProposalViewUpdate": "the consensus manager does not take a Choose/Consider request within 100ms (slow strategy)",
	"tmstate.StateMachine.handleHeightCommitted":    "the height-committed signal arrives while the state machine is in a step other than commit wait / awaiting finalization",
	"tmstate.StateMachine.startInitialTimer":        "entered with a delay step (same cause as beginRoundLive)",
	"tmgossip.ChattyStrategy.kernel":                "first network view update without a voting view",
}

func runC09(r *Run) {
	w := r.W
	prod := w.ProdFuncs()
	r.Rule("C09.1", "ENUM: every result constant Mirror.Handle{ProposedHeader,PrevoteProofs,PrecommitProofs} can return (interprocedurally) is mapped by a non-panicking case in both shipped feedback mappers")
	r.Rule("C09.2", "ENUM: constants a kernel function can produce for a status/result type are handled by the consuming switch whose default panics")
	r.Rule("C09.3", "PANIC census: explicit panic sites per production function do not exceed the reviewed budget (a new panic site is a violation); reviewed sites still reachable from peer input or schedules are individual known findings")
	r.Rule("C09.4", "callee preconditions / sibling fields: the kernel fills PrevValidatorSet whenever it fills PrevBlockHash; decodeCombinationIndex is called only after k != 0, k <= n and index < C(n,k) were established")
	r.Rule("C09.5", "BND: fixed-width reads of peer-supplied bytes are length-checked (see C13.2/C14.3)")
	r.Rule("C09.6", "no method is invoked on an interface-typed map lookup without a dominating presence/nil test (or the key being a range key of that map)")
	r.Rule("C09.7", "CAP: every response channel the kernel sends on outside a select is created with constant capacity >= 1 at every production make site")
	r.Rule("C09.8", "constructors: option errors are accumulated (errors.Join(err, ...)), options never receive a nil config, options documented as required are validated")

	// ---------- C09.1
	producers := map[string]string{"HandleProposedHeader": "tmmirror.Mirror.HandleProposedHeader", "HandlePrevoteProofs": "tmmirror.Mirror.HandlePrevoteProofs", "HandlePrecommitProofs": "tmmirror.Mirror.HandlePrecommitProofs"}
	mss := mapperSwitches(w)
	if len(mss) < 6 {
		r.Fail("C09.1", "mappers", "", fmt.Sprintf("expected the result switches of 2 mappers x 3 handler methods, found %d", len(mss)))
	}
	prodConsts := map[string]*ConstSet{}
	for meth, pn := range producers {
		pf := w.Fn(pn)
		if pf == nil {
			r.Fail("C09.1", pn, "", "producer not found")
			continue
		}
		cs := w.ResultConsts(pf, 0)
		if len(cs.Unknown) > 0 {
			r.Fail("C09.1", pn+"(non-constant)", w.Pos(pf.Pos()), "handler result is not a constant on some path: "+strings.Join(cs.Unknown, " | "))
		}
		prodConsts[meth] = cs
	}
	for _, ms := range mss {
		cs := prodConsts[ms.Method]
		if cs == nil {
			continue
		}
		mf := ms.Fn
		cases := w.A(mf).SwitchCases("$_", 0)
		deflt := cases["default"]
		for _, c := range cs.Sorted() {
			con := fmt.Sprintf("%s->tmconsensus.%s.%s[%s]", producers[ms.Method], ms.Mapper, ms.Method, c)
			ci, handled := cases[c]
			ok := handled && !ci.Panics && len(ci.Returns) > 0
			if !handled && deflt != nil && !deflt.Panics {
				ok = true
			}
			r.Check(ok, "C09.1", con, w.Pos(mf.Pos()), "the handler can return "+c+"; the mapper must translate it to a feedback value without panicking")
		}
	}
	r.Expect("C09.1", 40, "result constants x mappers")

	// ---------- C09.2 internal enum pairs
	// (a) PHCheckStatus: constants stored into PHCheckResponse.Status in tmi vs the mirror's switch
	{
		produced := map[string]bool{}
		for _, fw := range w.FieldWrites(tmiFuncs(w), "tmi.PHCheckResponse", "Status") {
			if fw.Kind == "store" {
				if k, ok := fw.Val.(*ssa.Const); ok {
					produced[w.Shaper(fw.Fn).constShape(k).String()] = true
				}
			}
		}
		if fn := w.Fn("tmmirror.Mirror.HandleProposedHeader"); fn != nil {
			a := w.AU(fn)
			si := a.SwitchOn("$chk.Status")
			for c := range produced {
				ok := si.Handled[c] || !si.DefaultPanics
				r.Check(ok, "C09.2", "PHCheckStatus["+c+"]->tmmirror.Mirror.HandleProposedHeader", w.Pos(fn.Pos()), "status produced by the kernel must be handled by the mirror's switch (default panics)")
			}
			if len(produced) < 5 {
				r.Fail("C09.2", "PHCheckStatus(producers)", "", fmt.Sprintf("only %d status constants found", len(produced)))
			}
		}
	}
	// (b) AddVoteResult
	for _, pair := range []struct {
		producers []string
		viaSend   bool
		consumer  string
	}{
		{[]string{"tmi.Kernel.addPrevote"}, true, "tmmirror.Mirror.HandlePrevoteProofs"},
		{[]string{"tmi.Kernel.addPrecommit"}, true, "tmmirror.Mirror.handlePrecommitProofs"},
		{[]string{"tmi.Kernel.addFuturePrevote"}, false, "tmmirror.Mirror.handleFuturePrevoteProofs"},
		{[]string{"tmi.Kernel.addFuturePrecommit"}, false, "tmmirror.Mirror.handleFuturePrecommitProofs"},
	} {
		produced := map[string]bool{}
		for _, pn := range pair.producers {
			pf := w.Fn(pn)
			if pf == nil {
				r.Fail("C09.2", pn, "", "producer not found")
				continue
			}
			a := w.AU(pf)
			if pair.viaSend {
				for _, s := range a.Sends() {
					if TypeName(s.Val.Type()) == "tmi.AddVoteResult" {
						v := a.sh.Of(s.Val)
						alts := []*Shape{v}
						if v.K == "phi" {
							alts = v.A
						}
						for _, alt := range alts {
							produced[alt.String()] = true
						}
					}
				}
			} else {
				for _, c := range w.ResultConsts(pf, 0).Sorted() {
					produced[c] = true
				}
			}
		}
		cf := w.Fn(pair.consumer)
		if cf == nil {
			r.Fail("C09.2", pair.consumer, "", "consumer not found")
			continue
		}
		ca := w.AU(cf)
		si := ca.SwitchOn("@gchan.ReqResp($...)#0")
		for c := range produced {
			if !strings.HasPrefix(c, "%tmi.AddVote") {
				r.Fail("C09.2", "AddVoteResult["+c+"]->"+pair.consumer, w.Pos(cf.Pos()), "non-constant vote result")
				continue
			}
			r.Check(si.Handled[c] || !si.DefaultPanics, "C09.2", "AddVoteResult["+c+"]->"+pair.consumer, w.Pos(cf.Pos()), "result produced by the kernel must be handled by the mirror's switch (default panics)")
		}
		if len(produced) < 3 {
			r.Fail("C09.2", "AddVoteResult(producers)->"+pair.consumer, "", fmt.Sprintf("only %d result constants found", len(produced)))
		}
	}
	// (c) ViewLookupStatus from FindView into the vote adders
	if fv := w.Fn("tmi.kState.FindView"); fv != nil {
		statuses := w.ResultConsts(fv, 2).Sorted()
		// ViewFuture cannot reach the adders: the mirror only requests additions for rounds it saw as found,
		// and views only move forward (a found round becomes orphaned/before-committing, never future)
		excluded := map[string]string{"%tmi.ViewFuture": "views only move forward: a round the mirror saw as found can become orphaned or before-committing, never future"}
		for _, cn := range []string{"tmi.Kernel.addPrevote", "tmi.Kernel.addPrecommit"} {
			cf := w.Fn(cn)
			if cf == nil {
				continue
			}
			si := w.AU(cf).SwitchOn("@tmi.kState.FindView($...)#2")
			for _, st := range statuses {
				con := "ViewLookupStatus[" + st + "]->" + cn
				if why, ex := excluded[st]; ex {
					r.Pass("C09.2", con, w.Pos(cf.Pos()), "excluded by invariant: "+why)
					continue
				}
				r.Check(si.Handled[st] || !si.DefaultPanics, "C09.2", con, w.Pos(cf.Pos()), "status returnable by FindView must be handled (default panics)")
			}
		}
		// FindView itself is total: its final panic must be unreachable — every (h, r) is classified before it
		a := w.A(fv)
		n := 0
		a.Instrs(func(in ssa.Instruction) {
			if p, ok := in.(*ssa.Panic); ok && !isSynthPanic(p) {
				n++
				// reachable only if h == Voting.Height was false, h < Voting.Height false and h > Voting.Height false
				lt, _ := a.IfEdges("(p1 < p0.Voting.RoundView.Height)", false, nil)
				gt, _ := a.IfEdges("(p0.Voting.RoundView.Height < p1)", false, nil)
				eq, _ := a.IfEdges("(p1 == p0.Voting.RoundView.Height)", false, nil)
				ok := len(lt) > 0 && len(gt) > 0 && len(eq) > 0 && a.EveryPathTakes(in, lt) && a.EveryPathTakes(in, gt) && a.EveryPathTakes(in, eq)
				r.Check(ok, "C09.2", "tmi.kState.FindView(total)", w.InstrPos(in), "the closing panic of FindView must sit behind h == voting, h < voting and h > voting all being false (arithmetically unreachable)")
			}
		})
	}
	r.Expect("C09.2", 20, "internal enum obligations")

	// ---------- C09.3 panic census
	cen := panicCensus(w)
	var names []string
	for n := range cen {
		names = append(names, n)
	}
	sort.Strings(names)
	nsites := 0
	pkgOfName := func(n string) string { return strings.SplitN(n, ".", 2)[0] }
	pkgReal, pkgBudget := map[string]int{}, map[string]int{}
	for n, b := range panicBudget {
		pkgBudget[pkgOfName(n)] += b
	}
	for _, n := range names {
		for _, p := range cen[n] {
			if !isSynthPanic(p.(*ssa.Panic)) {
				pkgReal[pkgOfName(n)]++
			}
		}
	}
	for _, n := range names {
		real := 0
		var first ssa.Instruction
		for _, p := range cen[n] {
			if !isSynthPanic(p.(*ssa.Panic)) {
				real++
				if first == nil {
					first = p
				}
			}
		}
		if real == 0 {
			continue
		}
		nsites += real
		budget := panicBudget[n]
		pk := pkgOfName(n)
		if real > budget && pkgReal[pk] <= pkgBudget[pk] {
			// the package as a whole has no more panic sites than reviewed: a reviewed site moved
			// (helper extracted or inlined, closure renumbered), which is not a new way to crash
			r.Pass("C09.3", "budget("+n+")", w.InstrPos(first), fmt.Sprintf("%d explicit panic site(s), function budget %d, but package %s has %d of %d reviewed sites: a reviewed site moved within the package", real, budget, pk, pkgReal[pk], pkgBudget[pk]))
		} else {
			r.Check(real <= budget, "C09.3", "budget("+n+")", w.InstrPos(first), fmt.Sprintf("%d explicit panic site(s), reviewed budget %d — a new way to crash the process needs review", real, budget))
		}
		if why, ok := reachablePanics[n]; ok {
			r.Fail("C09.3", "reachable("+n+")", w.InstrPos(first), "reviewed panic reachable without a local bug: "+why)
		}
	}
	r.Note("panic census: %d explicit panic sites in %d production functions", nsites, len(names))
	for pk, b := range pkgBudget {
		if pkgReal[pk] < b {
			r.Note("panic budget slack in package %s: %d sites, budget %d", pk, pkgReal[pk], b)
		}
	}
	r.Expect("C09.3", 50, "functions with explicit panics")

	// ---------- C09.4
	if fn := w.Fn("tmi.Kernel.setPHCheckStatus"); fn != nil {
		a := w.AU(fn)
		type st struct {
			in  ssa.Instruction
			blk *ssa.BasicBlock
		}
		var hashStores, setStores []st
		a.Instrs(func(in ssa.Instruction) {
			if s, ok := in.(*ssa.Store); ok {
				addr := a.sh.Of(s.Addr).String()
				if strings.HasSuffix(addr, ".PrevBlockHash") {
					hashStores = append(hashStores, st{in, in.Block()})
				}
				if strings.HasSuffix(addr, ".PrevValidatorSet") {
					setStores = append(setStores, st{in, in.Block()})
				}
			}
		})
		for i, hs := range hashStores {
			ok := false
			for _, ss := range setStores {
				if ss.blk == hs.blk {
					ok = true
				}
			}
			r.Check(ok, "C09.4", fmt.Sprintf("tmi.Kernel.setPHCheckStatus#prev%d", i+1), w.InstrPos(hs.in),
				"the response's PrevBlockHash is filled without its PrevValidatorSet: the mirror then validates the previous commit proof against an empty key set (NewSimpleCommonMessageSignatureProof / sigtree.New panic on zero keys, ByzantineMajority(0) panics)")
		}
	}
	for _, fn := range w.FuncsInPkg("gcrypto/gblsminsig") {
		a := w.A(fn)
		for i, c := range a.CallsTo("gblsminsig.decodeCombinationIndex") {
			if fn.Name() == "decodeCombinationIndex" {
				continue
			}
			k := a.sh.Of(CallArg(c, 1))
			con := fmt.Sprintf("%s#decode%d", FuncName(fn), i+1)
			r.RequireGuards(a, "C09.4", con, c,
				G{Name: "k-nonzero", Pattern: "($k == 0)", Holds: false, Filter: func(b Bind) bool { return b["$k"].String() == k.String() }},
				G{Name: "k-within-n", Pattern: "($n < $k)", Holds: false, Filter: func(b Bind) bool { return b["$k"].String() == k.String() }},
				G{Name: "index-in-range", Pattern: "(@big.Int.Cmp($idx,$max) < 0)", Holds: true},
			)
		}
	}
	r.Expect("C09.4", 7, "precondition obligations")

	// ---------- C09.5
	boundedReads(r, "C09.5", append(append(w.FuncsInPkg("gordian/gcrypto"), w.FuncsInPkg("gcrypto/gblsminsig")...), w.FuncsInPkg("tmcodec/tmjson")...))

	// ---------- C09.6
	ord := Ord{}
	for _, fn := range prod {
		a := w.A(fn)
		a.Instrs(func(in ssa.Instruction) {
			c, ok := in.(*ssa.Call)
			if !ok || !c.Call.IsInvoke() {
				return
			}
			lk, ok := c.Call.Value.(*ssa.Lookup)
			if !ok || lk.CommaOk {
				return
			}
			key := a.sh.Of(lk.Index)
			m := a.sh.Of(lk.X)
			con := ord.Next(FuncName(fn) + "#lookup-call")
			// the key ranges over the same map, or a presence / nil test dominates
			okc := key.K == "rk" && key.A[0].String() == m.String()
			if !okc {
				e1, _ := a.IfEdgesB("($m[$k] == nil)", false, Bind{"$m": m, "$k": key}, nil)
				e2, _ := a.IfEdgesB("$m[$k]#1", true, Bind{"$m": m, "$k": key}, nil)
				// an assignment m[k] = ... on the way also establishes presence
				var e3 []Edge
				a.Instrs(func(x ssa.Instruction) {
					if up, ok := x.(*ssa.MapUpdate); ok && a.sh.Of(up.Map).String() == m.String() && a.sh.Of(up.Key).String() == key.String() {
						if up.Block() == in.Block() && instrIndex(up) < instrIndex(in) {
							okc = true
						}
						for si := range up.Block().Succs {
							e3 = append(e3, Edge{up.Block(), si})
						}
					}
				})
				if !okc {
					okc = (len(e1)+len(e2)+len(e3) > 0) && a.EveryPathTakes(in, e1, e2, e3)
				}
			}
			r.Check(okc, "C09.6", con, w.InstrPos(in), "method "+c.Call.Method.Name()+" invoked on "+truncate(m.String(), 60)+"["+truncate(key.String(), 60)+"] which may be absent (nil interface)")
		})
	}

	// ---------- C09.7 channel capacities
	type chField struct{ typ, field string }
	need := []chField{
		{"tmi.PHCheckRequest", "Resp"}, {"tmi.ViewLookupRequest", "Resp"},
		{"tmi.AddPrevoteRequest", "Response"}, {"tmi.AddPrecommitRequest", "Response"},
		{"tmi.AddFuturePrevoteRequest", "Resp"}, {"tmi.AddFuturePrecommitRequest", "Resp"},
		{"tmeil.StateMachineRoundEntrance", "Response"},
	}
	for _, cf := range need {
		n := 0
		for _, fn := range prod {
			a := w.A(fn)
			a.Instrs(func(in ssa.Instruction) {
				st, ok := in.(*ssa.Store)
				if !ok {
					return
				}
				fa, ok := st.Addr.(*ssa.FieldAddr)
				if !ok || TypeName(fa.X.Type()) != cf.typ || fieldName(fa.X.Type(), fa.Field) != cf.field {
					return
				}
				n++
				v := a.sh.Of(st.Val)
				ok2 := false
				if v.K == "make" && v.S == "chan" && len(v.A) == 1 {
					if v.A[0].String() != "0" {
						ok2 = true
					}
				}
				r.Check(ok2, "C09.7", fmt.Sprintf("%s.%s@%s#%d", cf.typ, cf.field, FuncName(fn), n), w.InstrPos(in), "response channel must be made with capacity >= 1 (the kernel sends on it without a select): "+v.String())
			})
		}
		if n == 0 {
			r.Fail("C09.7", cf.typ+"."+cf.field, "", "no production site creates this response channel")
		}
	}
	// action channel capacity 3
	for _, fn := range w.FuncsInPkg("tmengine/internal/tmstate") {
		a := w.A(fn)
		a.Instrs(func(in ssa.Instruction) {
			mc, ok := in.(*ssa.MakeChan)
			if !ok || !strings.Contains(mc.Type().String(), "StateMachineRoundAction") {
				return
			}
			sz := a.sh.Of(mc.Size).String()
			r.Check(sz == "3", "C09.7", ord.Next(FuncName(fn)+"#actions-chan"), w.InstrPos(in), "outgoing actions channel holds the round's three possible actions (sends are not in a select): capacity "+sz)
		})
	}
	r.Expect("C09.7", 10, "channel make sites")

	// ---------- C09.9 channels owned by another component are closed at most once
	r.Rule("C09.11", "the mirror's vote handlers dispatch on the looked-up view's id (default arm: panic) only after the lookup reported ViewFound; every other status, ViewWrongCommit included, has already returned a result")
	viewIDOnlyWhenFound(r, "C09.11")
	r.Rule("C09.10", "kernel state is not mutated by input that is then rejected: a merge of network / replayed signatures goes into a clone or a fresh proof, or is followed by the summary recomputation on every path (a half-applied rejected replay leaves the live proof ahead of its summary and wedges the mirror)")
	inPlaceMergeRule(r, "C09.10")
	r.Rule("C09.9", "the state machine's HeightCommitted channel is closed only when the entrance height equals the committing height before the shift (a second shift for the same entrance cannot close it again: close of a closed channel panics)")
	if fn := w.Fn("tmi.kState.ShiftVotingToCommitting"); fn != nil {
		a := w.AU(fn)
		n := 0
		for _, c := range a.CallsTo("close") {
			n++
			r.RequireGuards(a, "C09.9", fmt.Sprintf("tmi.kState.ShiftVotingToCommitting#close%d", n), c,
				G{Name: "entrance-height-is-committing-height", Pattern: "(@tmi.stateMachineViewManager.HeightCommittedChan($m)#0 == p0.Committing.RoundView.Height)", Holds: true})
		}
		if n == 0 {
			r.Fail("C09.9", "tmi.kState.ShiftVotingToCommitting#close", w.Pos(fn.Pos()), "height-committed signal is never sent")
		}
	}
	// no other production function closes a channel it received from the state machine
	for _, fn := range tmiFuncs(w) {
		if fn.Name() == "ShiftVotingToCommitting" {
			continue
		}
		a := w.A(fn)
		for i, c := range a.CallsTo("close") {
			arg := a.sh.Of(CallArg(c, 0)).String()
			if strings.Contains(arg, "HeightCommitted") {
				r.Fail("C09.9", fmt.Sprintf("%s#close%d", FuncName(fn), i+1), w.InstrPos(c), "HeightCommitted channel closed outside the shift")
			}
		}
	}

	// ---------- C09.8 constructors
	for _, cn := range []string{"tmengine.New", "tmengine.NewMirror"} {
		fn := w.Fn(cn)
		if fn == nil {
			r.Fail("C09.8", cn, "", "constructor not found")
			continue
		}
		a := w.AU(fn)
		// (a) errors.Join in the option loop includes the accumulated error
		joined := false
		nilCfg := false
		a.Instrs(func(in ssa.Instruction) {
			c, ok := in.(*ssa.Call)
			if !ok {
				return
			}
			_, n := calleeName(&c.Call)
			if n == "errors.Join" {
				// varargs slice: look at stores into the varargs array
				cnt := 0
				for _, b := range a.blocks() {
					for _, x := range b.Instrs {
						if st, ok := x.(*ssa.Store); ok {
							if ia, ok := st.Addr.(*ssa.IndexAddr); ok {
								if al, ok := ia.X.(*ssa.Alloc); ok && al.Comment == "varargs" && sliceOf(c.Call.Args[0]) == al {
									cnt++
								}
							}
						}
					}
				}
				if cnt >= 2 {
					joined = true
				}
			}
			if n == "" { // dynamic call of an option
				for _, arg := range c.Call.Args {
					if k, ok := arg.(*ssa.Const); ok && k.Value == nil && strings.Contains(k.Type().String(), "StateMachineConfig") {
						nilCfg = true
					}
				}
			}
		})
		r.Check(joined, "C09.8", cn+"#option-loop", w.Pos(fn.Pos()), "errors from all rejected options must be accumulated: errors.Join must receive the running error together with the new one")
		r.Check(!nilCfg, "C09.8", cn+"(nil-config)", w.Pos(fn.Pos()), "options are invoked with a nil *StateMachineConfig although several options write through it")
	}
	if fn := w.Fn("tmengine.NewMirror"); fn != nil {
		a := w.AU(fn)
		e, _ := a.IfEdges("($e.genesis == nil)", false, nil)
		ok := len(e) > 0
		a.Instrs(func(in ssa.Instruction) {
			if fa, isFA := in.(*ssa.FieldAddr); isFA && strings.HasSuffix(a.sh.Of(fa.X).String(), ".genesis") {
				if !a.EveryPathTakes(in, e) {
					ok = false
				}
			}
		})
		r.Check(ok, "C09.8", "tmengine.NewMirror(genesis-checked)", w.Pos(fn.Pos()), "the genesis option must be checked for presence before it is dereferenced")
	}
	checkRequiredOptions(r)
	r.Expect("C09.8", 6, "constructor obligations")
}

func sliceOf(v ssa.Value) *ssa.Alloc {
	if sl, ok := v.(*ssa.Slice); ok {
		if al, ok := sl.X.(*ssa.Alloc); ok {
			return al
		}
	}
	return nil
}

// checkRequiredOptions: every With* option whose doc comment says "This option is required"
// writes a config field that validateSettings tests against nil.
func checkRequiredOptions(r *Run) {
	w := r.W
	vs := w.Fn("tmengine.Engine.validateSettings")
	if vs == nil {
		r.Fail("C09.8", "validateSettings", "", "not found")
		return
	}
	va := w.AU(vs)
	validated := map[string]bool{}
	for _, b := range va.blocks() {
		if len(b.Instrs) == 0 {
			continue
		}
		if ifi, ok := b.Instrs[len(b.Instrs)-1].(*ssa.If); ok {
			p := NormPred(va.sh.Of(ifi.Cond))
			if p.Op == "==" && p.R != nil && p.R.String() == "nil" {
				s := p.L.String()
				if i := strings.LastIndex(s, "."); i >= 0 {
					validated[s[i+1:]] = true
				}
			}
		}
	}
	// use SSA: option constructors are functions named With* returning tmengine.Opt; their doc is in syntax
	for _, fn := range w.FuncsInPkg("tm/tmengine") {
		if fn.Parent() != nil || !strings.HasPrefix(fn.Name(), "With") {
			continue
		}
		decl := w.FuncDecl(fn)
		if decl == nil || decl.Doc == nil || !strings.Contains(decl.Doc.Text(), "This option is required.") {
			continue
		}
		// fields written by the option's closure
		var fields []string
		for _, anon := range fn.AnonFuncs {
			aa := w.A(anon)
			aa.Instrs(func(in ssa.Instruction) {
				if st, ok := in.(*ssa.Store); ok {
					if fa, ok := st.Addr.(*ssa.FieldAddr); ok {
						fields = append(fields, fieldName(fa.X.Type(), fa.Field))
					}
				}
			})
		}
		ok := false
		for _, f := range fields {
			if validated[f] {
				ok = true
			}
		}
		r.Check(ok, "C09.8", "required("+fn.Name()+")", w.Pos(fn.Pos()), fmt.Sprintf("documented as required; writes %v; validateSettings nil-checks %v", fields, setKeys(validated)))
	}
}
