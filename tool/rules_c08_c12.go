package main

import (
	"fmt"
	"go/token"
	"regexp"
	"sort"
	"strings"

	"golang.org/x/tools/go/ssa"
)

func init() {
	register(&PropMeta{
		ID: "C08", Title: "The round state machine follows the Tendermint round rules, forwards only",
		Explanation: "The hand-written event loop is explored by an abstract interpreter over its SSA (tracked: the lifecycle step, the step-timer typestate, catching-up mode, whether the round was reset; every untracked branch forks; callees on the same lifecycle are summarised per abstract input with a fixpoint over the one recursive cycle). From every step the loop can be in, every event case of handleLiveEvent is executed abstractly and the resulting transition relation is checked: (1) without a round reset the step rank never decreases; (2) the consensus strategy is asked to decide a precommit only from a step below awaiting-precommits (or when entering a round already in that situation) and at most once per round, and to choose a prevote only from awaiting-proposal. Guards on the irreversible actions are checked by edge-dominance: (3) every call that begins a commit is dominated by precommit power of the most-voted non-nil hash >= ByzantineMajority(available) of the same view (or by the commit-wait classification of the step function, whose own return is so guarded); finalize requests are sent from four functions only, for the header whose hash is the most-voted precommit hash or the committed header supplied by the mirror; (4) every round advance is dominated by a nil-majority, fully-voted-without-majority, precommit-delay timeout or jump-ahead-to-a-later-round guard; (5) every height advance follows a stored finalization and an elapsed commit wait; (6) view updates are dispatched only for the current height and round and a strictly greater version; (7) every step the step function can return is handled by the round-begin switches.",
		NotDecided:  "equivalence with a full Tendermint model for every event order (vote contents are abstracted); behaviour of the consensus strategy and the driver",
		Assumptions: []string{"abstract interpretation over-approximates: untracked conditions fork both ways", "the state machine kernel is a single goroutine (C02.7)"},
		Run:         runC08,
	})
	register(&PropMeta{
		ID: "C12", Title: "Exactly one step timer, armed iff waiting, and re-arming never fails",
		Explanation: "Timer discipline of the state machine is decided by the same abstract interpreter with a timer typestate (StepTimer / CancelTimer nil-ness and whether a timer is running): the invariant 'the step is a timed step (awaiting proposal, prevote delay, precommit delay, commit wait) iff a timer is armed, and no timer exists otherwise (none at all while catching up)' is inductive over every event case of the live loop and the catch-up loop and holds after round initialisation; on no abstract path is the cancel function called while nil, nor a new timer requested while the previous one is still armed (which the production timer answers with a panic). Structurally: StepTimer and CancelTimer are always assigned together (both results of one RoundTimer call, or both nil); the RoundTimer is only used by the state machine. For the production timer: the start-request case of the running phase may panic only after a non-blocking check that the cancel channel is still open (cancel-then-start must never fail, for every goroutine schedule); the elapsed channel is closed only when the timer fired; cancel is idempotent.",
		NotDecided:  "wall-clock behaviour of time.Timer; that a fired timer is observed promptly",
		Assumptions: []string{"abstract interpretation over-approximates the feasible event orders"},
		Run:         runC12,
	})
}

type absRun struct {
	e       *absEngine
	entries []absEntry
}

type absEntry struct {
	fn  string
	in  absState
	out map[absOut]bool
}

var absCache = map[*World]*absRun{}

// exploreStateMachine runs the abstract interpreter over the state machine's entry points.
func exploreStateMachine(w *World) *absRun {
	if ar, ok := absCache[w]; ok {
		return ar
	}
	e := newAbsEngine(w)
	ar := &absRun{e: e}
	live := w.Fn("tmstate.StateMachine.handleLiveEvent")
	catchup := w.Fn("tmstate.StateMachine.handleCatchupEvent")
	begin := w.Fn("tmstate.StateMachine.beginRoundLive")
	if live != nil {
		for s := int8(1); s <= 7; s++ {
			t := timedStep(s)
			in := absState{S: s, TS: t, TC: t, Run: t}
			if t {
				in.Arm = s
			}
			ar.entries = append(ar.entries, absEntry{FuncName(live), in, e.fixpoint(live, in)})
			cu := absState{S: s, CU: true}
			ar.entries = append(ar.entries, absEntry{FuncName(live), cu, e.fixpoint(live, cu)})
		}
	}
	if begin != nil {
		// entering a round right after Reset: no timer, step left over from the previous round
		for s := int8(0); s <= 7; s++ {
			in := absState{S: s, Reset: true}
			ar.entries = append(ar.entries, absEntry{FuncName(begin), in, e.fixpoint(begin, in)})
		}
	}
	if catchup != nil {
		for s := int8(0); s <= 7; s++ {
			in := absState{S: s, CU: true}
			ar.entries = append(ar.entries, absEntry{FuncName(catchup), in, e.fixpoint(catchup, in)})
		}
	}
	absCache[w] = ar
	return ar
}

func runC12(r *Run) {
	w := r.W
	r.Rule("C12.1", "ABS: inductive invariant over every event case — timed step <=> step timer armed (StepTimer, CancelTimer set and running); untimed or catching up => no timer")
	r.Rule("C12.2", "ABS: on no abstract path is CancelTimer called while nil, nor a RoundTimer requested while the previous timer is still armed")
	r.Rule("C12.3", "StepTimer and CancelTimer are assigned together: both results of one RoundTimer call or both nil; RoundTimer methods are invoked only by the state machine")
	r.Rule("C12.4", "production timer: in the running phase a start request may panic only behind a non-blocking check that the cancel channel has not been closed (cancel-then-start never fails under any schedule)")
	r.Rule("C12.5", "production timer: the elapsed channel is closed only in the timer-fired case; cancel closes its channel at most once (sync.Once)")
	r.Rule("C12.8", "production timer: each started timer's elapsed channel is freshly made on every path to the start response (a cancelled timer never shares a channel with a later one, so it never reports elapsed)")
	r.Rule("C12.7", "production timer: after every arming of the time.Timer the goroutine's next wait on every path includes timer.C (an armed timer is always listened to)")
	r.Rule("C12.6", "production timer: after the time.Timer value has been received, no path waits on that channel again before the timer is re-armed (a second drain blocks forever and wedges every later request)")

	ar := exploreStateMachine(w)
	if len(ar.entries) == 0 {
		r.Fail("C12.1", "anchor", "", "state machine event handlers not found")
		return
	}
	nOut := 0
	for _, en := range ar.entries {
		bad := map[string]absState{}
		for o := range en.out {
			nOut++
			if o.Ret == 0 && strings.HasSuffix(en.fn, "handleLiveEvent") {
				continue // the kernel stops
			}
			if ok, why := timerInvariant(o.St); !ok {
				bad[why] = o.St
			}
		}
		con := fmt.Sprintf("%s from %s", en.fn, en.in)
		var whys []string
		for why, st := range bad {
			whys = append(whys, why+" "+st.String())
		}
		sort.Strings(whys)
		r.Check(len(bad) == 0, "C12.1", con, "", fmt.Sprintf("%d abstract exit states; invariant violations: %s", len(en.out), strings.Join(whys, " | ")))
	}
	r.Note("abstract interpretation: %d entry states, %d exit states, %d abstract steps explored", len(ar.entries), nOut, ar.e.explored)
	var vk []string
	for k := range ar.e.viol {
		vk = append(vk, k)
	}
	sort.Strings(vk)
	for _, k := range vk {
		v := ar.e.viol[k]
		r.Fail("C12.2", v.Kind+"@"+v.Fn, v.Pos, "abstract path reaches this instruction in state "+v.State.String())
	}
	if len(vk) == 0 {
		r.Pass("C12.2", "all-paths", "", fmt.Sprintf("no nil cancel call and no overlapping timer request on %d explored abstract steps", ar.e.explored))
	}
	// assumption A-CU used by the interpreter: while the lifecycle replays a committed height, no view
	// update for that height and round is dispatched. Its structural half on the mirror side: a round
	// entrance is answered with a committed header only when the requested height lies before the
	// mirror's committing view (and the mirror forwards views only at or above it, C11).
	if fn := w.Fn("tmi.Kernel.handleStateMachineRoundEntrance"); fn != nil {
		a := w.AU(fn)
		n := 0
		for _, sd := range a.Sends() {
			v := a.sh.Of(sd.Val).String()
			if !strings.HasPrefix(v, "lit:tmeil.RoundEntranceResponse{") || !strings.Contains(v, "CH:") {
				continue
			}
			n++
			r.RequireGuards(a, "C12.1", fmt.Sprintf("assume(A-CU)@tmi.Kernel.handleStateMachineRoundEntrance#committed-header-response%d", n), sd.Instr,
				G{Name: "before-committing", Pattern: "(@tmi.kState.FindView(p2,p3.H,p3.R,$_)#2 == %tmi.ViewBeforeCommitting)", Holds: true})
		}
		if n == 0 {
			r.Fail("C12.1", "assume(A-CU)@tmi.Kernel.handleStateMachineRoundEntrance", w.Pos(fn.Pos()), "no committed-header response found")
		}
	} else {
		r.Fail("C12.1", "assume(A-CU)", "", "tmi.Kernel.handleStateMachineRoundEntrance not found")
	}
	r.Check(len(ar.e.cuNils) >= 3, "C12.1", "assume(A-CU)@tsi.RoundLifecycle.MarkCatchingUp", "", fmt.Sprintf("catching up clears the strategy answer channels (%d fields set to nil), so their select cases are disabled", len(ar.e.cuNils)))
	r.Expect("C12.1", 20, "entry states")

	// ---- C12.3
	smFns := append(w.FuncsInPkg("tmengine/internal/tmstate"), w.FuncsInPkg("tmstate/internal/tsi")...)
	ord := Ord{}
	for _, fn := range smFns {
		a := w.A(fn)
		a.Instrs(func(in ssa.Instruction) {
			st, ok := in.(*ssa.Store)
			if !ok || lastField(st.Addr) != "tsi.RoundLifecycle.StepTimer" {
				return
			}
			con := ord.Next(FuncName(fn) + "#StepTimer=")
			v := a.sh.Of(st.Val).String()
			// sibling store to CancelTimer in the same block, on the same object
			okPair := false
			for _, x := range in.Block().Instrs {
				s2, ok := x.(*ssa.Store)
				if !ok || lastField(s2.Addr) != "tsi.RoundLifecycle.CancelTimer" {
					continue
				}
				// same lifecycle object (compared as values: the pointer may be re-loaded from a captured variable)
				if a.sh.Of(s2.Addr.(*ssa.FieldAddr).X).String() != a.sh.Of(st.Addr.(*ssa.FieldAddr).X).String() {
					continue
				}
				v2 := a.sh.Of(s2.Val).String()
				switch {
				case v == "nil" && v2 == "nil":
					okPair = true
				case strings.HasSuffix(v, "#0") && strings.HasSuffix(v2, "#1") && strings.TrimSuffix(v, "#0") == strings.TrimSuffix(v2, "#1") && strings.HasPrefix(v, "@@tmstate.RoundTimer."):
					okPair = true
				}
			}
			r.Check(okPair, "C12.3", con, w.InstrPos(in), "StepTimer <- "+truncate(v, 100)+" must be paired with the matching CancelTimer assignment")
		})
	}
	for _, c := range w.CallersOf(w.ProdFuncs(), "tmstate.RoundTimer.ProposalTimer", "tmstate.RoundTimer.PrevoteDelayTimer", "tmstate.RoundTimer.PrecommitDelayTimer", "tmstate.RoundTimer.CommitWaitTimer") {
		r.Check(strings.HasSuffix(pkgPathOf(c.Fn), "tmengine/internal/tmstate"), "C12.3", "caller(RoundTimer)@"+FuncName(c.Fn)+"#"+callCommon(c.Instr).Method.Name(), w.InstrPos(c.Instr), "round timers are requested only by the state machine")
	}
	// the timer kind matches the step it is armed for (judged at exit: set-then-arm and arm-then-set both occur)
	kindBad := map[string]bool{}
	for _, en := range ar.entries {
		for o := range en.out {
			if o.St.S >= 0 && timedStep(o.St.S) && o.St.Run && o.St.Arm != o.St.S {
				kindBad[stepName(o.St.Arm)+"->"+stepName(o.St.S)] = true
			}
		}
	}
	for k := range kindBad {
		r.Fail("C12.3", "timer-kind("+k+")", "", "the timer armed last on a path does not belong to the step the machine ends in")
	}
	if len(kindBad) == 0 {
		r.Pass("C12.3", "timer-kind", "", "on every abstract exit the running timer is the one belonging to the step")
	}
	r.Expect("C12.3", 15, "timer assignments")

	// ---- C12.4 / C12.5 production timer
	bg := w.Fn("tmstate.StandardRoundTimer.background")
	if bg == nil {
		r.Fail("C12.4", "anchor", "", "StandardRoundTimer.background not found")
		return
	}
	a := w.AU(bg)
	var sels []*ssa.Select
	a.Instrs(func(in ssa.Instruction) {
		if s, ok := in.(*ssa.Select); ok {
			sels = append(sels, s)
		}
	})
	isStartReq := func(v ssa.Value) bool { return strings.HasSuffix(a.sh.Of(v).String(), ".startTimerRequests") }
	isTimerC := func(v ssa.Value) bool {
		fa, ok := v.(*ssa.UnOp)
		if !ok {
			return false
		}
		return lastField(fa.X) == "time.Timer.C"
	}
	isCtxDone := func(v ssa.Value) bool { return strings.HasPrefix(a.sh.Of(v).String(), "@@context.Context.Done(") }
	// the running-phase select: blocking, with a start-request case and the time.Timer case; the
	// cancel channel is its remaining receive case (identified by role, not by the variable's name)
	found := false
	var cancelShape string
	for _, s := range sels {
		startIdx, timerIdx := -1, -1
		var others []int
		for i, st := range s.States {
			switch {
			case isStartReq(st.Chan):
				startIdx = i
			case isTimerC(st.Chan):
				timerIdx = i
			case isCtxDone(st.Chan):
			default:
				others = append(others, i)
			}
		}
		if !s.Blocking || startIdx < 0 || timerIdx < 0 || len(others) != 1 {
			continue
		}
		found = true
		cancelShape = a.sh.Of(s.States[others[0]].Chan).String()
		isCancelCh := func(v ssa.Value) bool { return a.sh.Of(v).String() == cancelShape }
		// panics reachable only through the start case
		n := 0
		a.Instrs(func(in ssa.Instruction) {
			p, ok := in.(*ssa.Panic)
			if !ok || isSynthPanic(p) {
				return
			}
			if !selCaseGuard(a, in, s, startIdx) {
				return
			}
			n++
			// must be on the default edge of a non-blocking select that polls the cancel channel
			okGuard := false
			for _, s2 := range sels {
				if s2.Blocking {
					continue
				}
				polls := false
				for _, st := range s2.States {
					if isCancelCh(st.Chan) {
						polls = true
					}
				}
				if polls && selDefaultGuard(a, in, s2) {
					okGuard = true
				}
			}
			r.Check(okGuard, "C12.4", fmt.Sprintf("tmstate.StandardRoundTimer.background#start-while-running-panic%d", n), w.InstrPos(in),
				"when cancel() is followed at once by a new start request, both the cancel case and the start case are ready and select chooses at random: panicking in the start case without first checking that the cancel channel is still open makes cancel-then-start fail for some schedules")
		})
		if n == 0 {
			r.Pass("C12.4", "tmstate.StandardRoundTimer.background(start-while-running)", w.Pos(bg.Pos()), "a start request during the running phase never panics")
		}
	}
	if !found {
		r.Fail("C12.4", "tmstate.StandardRoundTimer.background(running-select)", w.Pos(bg.Pos()), "no blocking select over the time.Timer channel, one cancel channel and start requests found")
	}
	// C12.5: the background goroutine closes a channel only in the case that received from timer.C
	// (the cancel function's close is in its own closure); so a cancelled timer never reports elapsed
	nclose := 0
	for _, c := range a.CallsTo("close") {
		if strings.HasPrefix(a.sh.Of(CallArg(c, 0)).String(), "p0.") {
			continue // a channel of the timer object itself (goroutine-done signal), never handed out as a timer
		}
		nclose++
		ok := false
		for _, s := range sels {
			for i, st := range s.States {
				if isTimerC(st.Chan) && selCaseGuard(a, c, s, i) {
					ok = true
				}
			}
		}
		r.Check(ok, "C12.5", fmt.Sprintf("tmstate.StandardRoundTimer.background#close-elapsed%d", nclose), w.InstrPos(c), "the timer goroutine closes a channel (reports elapsed) only in the case that received from timer.C (a cancelled timer never reports elapsed)")
	}
	if nclose == 0 {
		r.Fail("C12.5", "tmstate.StandardRoundTimer.background#close-elapsed", w.Pos(bg.Pos()), "the elapsed channel is never closed")
	}
	// C12.6: timer.C yields at most one value per arming. Once the goroutine has received it, any
	// further wait on timer.C (the running-phase select, or the Stop()-failed drain, which then
	// blocks forever and wedges every later timer request) must come after the timer was re-armed.
	rearm := func(in ssa.Instruction) bool {
		c := callCommon(in)
		if c == nil {
			return false
		}
		if _, n := calleeName(c); n == "time.Timer.Reset" {
			return true
		}
		if callee := c.StaticCallee(); callee != nil && callee.Parent() == bg {
			hit := false
			w.A(callee).Instrs(func(x ssa.Instruction) {
				if cc := callCommon(x); cc != nil {
					if _, n := calleeName(cc); n == "time.Timer.Reset" {
						hit = true
					}
				}
			})
			return hit
		}
		// a call through a local closure variable
		if mc, ok := c.Value.(*ssa.MakeClosure); ok {
			if f, ok := mc.Fn.(*ssa.Function); ok {
				hit := false
				w.A(f).Instrs(func(x ssa.Instruction) {
					if cc := callCommon(x); cc != nil {
						if _, n := calleeName(cc); n == "time.Timer.Reset" {
							hit = true
						}
					}
				})
				return hit
			}
		}
		return false
	}
	waitsOnTimer := func(in ssa.Instruction) bool {
		switch x := in.(type) {
		case *ssa.Select:
			for _, st := range x.States {
				if isTimerC(st.Chan) {
					return true
				}
			}
		case *ssa.UnOp:
			return x.Op == token.ARROW && isTimerC(x.X)
		}
		return false
	}
	nRecv := 0
	for _, s := range sels {
		for i, st := range s.States {
			if !isTimerC(st.Chan) {
				continue
			}
			// the block entered when case i was chosen
			var start *ssa.BasicBlock
			for _, b := range bg.Blocks {
				if len(b.Instrs) == 0 {
					continue
				}
				ifi, ok := b.Instrs[len(b.Instrs)-1].(*ssa.If)
				if !ok {
					continue
				}
				bo, ok := ifi.Cond.(*ssa.BinOp)
				if !ok {
					continue
				}
				ex, ok := bo.X.(*ssa.Extract)
				if !ok || ex.Index != 0 || ex.Tuple != ssa.Value(s) {
					continue
				}
				if k, ok := bo.Y.(*ssa.Const); ok {
					if v, ok := constInt(k); ok && v == i {
						start = b.Succs[0]
					}
				}
			}
			if start == nil {
				continue
			}
			nRecv++
			var bad ssa.Instruction
			seen := map[*ssa.BasicBlock]bool{}
			var walk func(b *ssa.BasicBlock)
			walk = func(b *ssa.BasicBlock) {
				if seen[b] || bad != nil {
					return
				}
				seen[b] = true
				for _, in := range b.Instrs {
					if rearm(in) {
						return
					}
					if waitsOnTimer(in) {
						bad = in
						return
					}
				}
				for _, nb := range b.Succs {
					walk(nb)
				}
			}
			walk(start)
			pos := w.InstrPos(s)
			det := "after the timer's value was received, the goroutine waits on timer.C again only after re-arming it"
			if bad != nil {
				pos = w.InstrPos(bad)
				det = "a path from the received timer value reaches another wait on timer.C without re-arming the timer: a drain there blocks forever (Stop reports false after the value was taken) and wedges the timer goroutine"
			}
			r.Check(bad == nil, "C12.6", fmt.Sprintf("tmstate.StandardRoundTimer.background#timer-value-received%d", nRecv), pos, det)
		}
	}
	if nRecv == 0 {
		r.Fail("C12.6", "tmstate.StandardRoundTimer.background#timer-value-received", w.Pos(bg.Pos()), "no receive from the time.Timer channel found")
	}
	// C12.7: an armed timer is listened to. After every (re-)arming of the time.Timer, the next wait
	// of the goroutine on every path is a select that includes timer.C (and the cancel channel);
	// waiting only for the next start request with a timer running means that timer never reports.
	nArm := 0
	a.Instrs(func(in ssa.Instruction) {
		if in.Parent() != bg || !rearm(in) {
			return
		}
		nArm++
		var bad ssa.Instruction
		seen := map[*ssa.BasicBlock]bool{}
		var walk func(b *ssa.BasicBlock, from int)
		walk = func(b *ssa.BasicBlock, from int) {
			if bad != nil {
				return
			}
			for _, x := range b.Instrs[from:] {
				if sel, ok := x.(*ssa.Select); ok {
					if !waitsOnTimer(sel) {
						bad = sel
					}
					return
				}
				if u, ok := x.(*ssa.UnOp); ok && u.Op == token.ARROW {
					if !isTimerC(u.X) {
						bad = x
					}
					return
				}
			}
			for _, nb := range b.Succs {
				if !seen[nb] {
					seen[nb] = true
					walk(nb, 0)
				}
			}
		}
		walk(in.Block(), instrIndex(in)+1)
		pos, det := w.InstrPos(in), "after arming the timer the goroutine's next wait includes timer.C on every path"
		if bad != nil {
			pos, det = w.InstrPos(bad), "after the timer is armed a path reaches a wait that does not include timer.C: the running timer is never observed (no elapse is ever reported for it)"
		}
		r.Check(bad == nil, "C12.7", fmt.Sprintf("tmstate.StandardRoundTimer.background#armed-then-listens%d", nArm), pos, det)
	})
	if nArm == 0 {
		r.Fail("C12.7", "tmstate.StandardRoundTimer.background#armed-then-listens", w.Pos(bg.Pos()), "no arming of the time.Timer found")
	}
	// cancel closure: close under sync.Once
	okOnce := false
	for _, fn := range smFns {
		if !strings.HasPrefix(FuncName(fn), "tmstate.StandardRoundTimer.background$") {
			continue
		}
		fa := w.A(fn)
		if len(fa.CallsTo("sync.Once.Do")) == 1 {
			okOnce = true
		}
	}
	r.Check(okOnce, "C12.5", "tmstate.StandardRoundTimer.background(cancel-once)", w.Pos(bg.Pos()), "the cancel function closes its channel through sync.Once, so calling it twice is harmless")
	freshElapsedChannel(r, "C12.8")
}

func runC08(r *Run) {
	w := r.W
	r.Rule("C08.1", "ABS: without a round reset, every abstract transition of the event loop has non-decreasing step rank")
	r.Rule("C08.2", "ABS: DecidePrecommit is requested only from a step below awaiting-precommits (or at round entry) and at most once per round; Choose only from awaiting-proposal; Consider only from awaiting-proposal or on block-data arrival")
	r.Rule("C08.3", "GRD: every commit begin is dominated by precommit power of the most-voted non-nil hash >= ByzantineMajority(available) of the same view; FinalizeBlockRequest is sent from the reviewed functions only, for the most-voted header or the mirror-supplied committed header")
	r.Rule("C08.4", "GRD: every round advance is dominated by nil-majority, fully-voted-without-majority, the precommit-delay timeout, a commit-wait classification with nil hash, or a jump-ahead to a later round of the same height")
	r.Rule("C08.5", "GRD: every height advance follows a successfully stored finalization (or a finalized validator set already present) in step awaiting-finalization / commit-wait")
	r.Rule("C08.6", "view updates are dispatched only for the current height and round and a strictly greater version")
	r.Rule("C08.7", "ENUM: every step GetStepFromVoteSummary can return is handled without panic by the round-begin switch and the initial-timer switch")

	ar := exploreStateMachine(w)
	// ---- C08.1 / C08.2
	for _, en := range ar.entries {
		if !strings.HasSuffix(en.fn, "handleLiveEvent") || en.in.CU {
			continue
		}
		var bad []string
		var badEv []string
		for o := range en.out {
			if o.Ret == 0 {
				continue
			}
			if !o.St.Reset && o.St.S >= 0 && o.St.S < en.in.S {
				bad = append(bad, stepName(en.in.S)+"->"+stepName(o.St.S))
			}
			if o.St.S < 0 {
				bad = append(bad, stepName(en.in.S)+"->?")
			}
			if o.St.Quit {
				continue // a send failed (context cancelled): the kernel is stopping
			}
			if o.St.Dec > 1 || o.St.Cho > 1 {
				badEv = append(badEv, "more than one DecidePrecommit / ChooseProposedBlock request in one round on one path, ending in "+o.St.String())
			}
			if !o.St.Reset {
				if o.St.Dec > 0 && en.in.S >= 4 {
					badEv = append(badEv, "DecidePrecommit requested although the round is already at "+stepName(en.in.S))
				}
				if o.St.Cho > 0 && en.in.S != 1 {
					badEv = append(badEv, "ChooseProposedBlock requested outside awaiting-proposal, at "+stepName(en.in.S))
				}
			}
			// a request moves the round past the steps that may issue it, so it cannot be repeated by a later event
			if o.St.Dec > 0 && !o.St.CU && o.St.S < 4 {
				badEv = append(badEv, "after a DecidePrecommit request the round is still at "+stepName(o.St.S))
			}
			if o.St.Cho > 0 && !o.St.CU && o.St.S < 2 {
				badEv = append(badEv, "after a ChooseProposedBlock request the round is still at "+stepName(o.St.S))
			}
		}
		sort.Strings(bad)
		sort.Strings(badEv)
		r.Check(len(bad) == 0, "C08.1", "rank from "+stepName(en.in.S), "", fmt.Sprintf("%d exits; backward transitions: %v", len(en.out), uniqStrings(bad)))
		r.Check(len(badEv) == 0, "C08.2", "strategy requests from "+stepName(en.in.S), "", fmt.Sprintf("%d exits; offending: %v", len(en.out), uniqStrings(badEv)))
	}
	var toks []string
	for tok := range ar.e.events {
		toks = append(toks, tok)
	}
	sort.Strings(toks)
	r.Note("strategy / driver requests seen by the abstract interpreter (kind@step-at-send/function): %s", strings.Join(toks, " "))
	r.Expect("C08.1", 7, "steps")

	// ---- C08.3
	vsP := "p3.RoundView.VoteSummary"
	for _, c := range w.CallersOf(w.ProdFuncs(), "tmstate.StateMachine.beginCommit") {
		a := w.A(c.Fn)
		con := FuncName(c.Fn) + "->beginCommit"
		if c.Fn.Name() == "beginRoundLive" {
			r.RequireGuards(a, "C08.3", con, c.Instr,
				G{Name: "commit-wait-classification", Pattern: "(@tsi.GetStepFromVoteSummary(" + vsP + ") == %tsi.StepCommitWait)", Holds: true},
				G{Name: "non-nil-hash", Pattern: "(" + vsP + `.MostVotedPrecommitHash == "")`, Holds: false})
			continue
		}
		r.RequireGuards(a, "C08.3", con, c.Instr,
			G{Name: "majority", Pattern: "(" + vsP + ".PrecommitBlockPower[" + vsP + ".MostVotedPrecommitHash] < @tmconsensus.ByzantineMajority(" + vsP + ".AvailablePower))", Holds: false},
			G{Name: "non-nil-hash", Pattern: "(" + vsP + `.MostVotedPrecommitHash == "")`, Holds: false})
		// the view passed is the one tested
		r.Check(a.sh.Of(CallArg(c.Instr, 3)).String() == "p3", "C08.3", con+"(view)", w.InstrPos(c.Instr), "the committed view is the one whose summary was tested")
	}
	if fn := w.Fn("tsi.GetStepFromVoteSummary"); fn != nil {
		a := w.AU(fn)
		for i, ret := range a.ReturnsOf(0, "%tsi.StepCommitWait") {
			r.RequireGuards(a, "C08.3", fmt.Sprintf("tsi.GetStepFromVoteSummary#commit-wait%d", i+1), ret,
				G{Name: "majority", Pattern: "(p0.PrecommitBlockPower[p0.MostVotedPrecommitHash] < @tmconsensus.ByzantineMajority(p0.AvailablePower))", Holds: false})
		}
	}
	okSenders := map[string]bool{"tmstate.StateMachine.beginCommit": true, "tmstate.StateMachine.handleCommitWaitViewUpdate": true, "tmstate.StateMachine.advance": true, "tmstate.StateMachine.sendInitialActionSet": true}
	ord := Ord{}
	for _, fn := range w.ProdFuncs() {
		a := w.A(fn)
		for _, s := range a.Sends() {
			if TypeName(s.Val.Type()) != "tmdriver.FinalizeBlockRequest" || strings.HasSuffix(pkgPathOf(fn), "internal/gchan") {
				continue
			}
			con := ord.Next(FuncName(fn) + "#finalize-request")
			owner := w.OwnerIn(fn, func(n string) bool { return okSenders[n] }) // a helper split off from its only caller counts as that caller
			if owner != fn {
				a = w.AU(owner)
			}
			v := a.sh.Of(s.Val).String()
			ok := okSenders[FuncName(owner)]
			switch FuncName(owner) {
			case "tmstate.StateMachine.beginCommit", "tmstate.StateMachine.handleCommitWaitViewUpdate":
				// header = ProposedHeaders[IndexFunc(..., closure comparing with MostVotedPrecommitHash)] with idx >= 0
				ok = ok && strings.Contains(v, "Header:p3.RoundView.ProposedHeaders[@slices.IndexFunc(p3.RoundView.ProposedHeaders,closure:") && strings.Contains(v, "Round:p3.RoundView.Round") && strings.Contains(v, "Resp:p2.FinalizeRespCh")
				e, _ := a.IfEdges("(@slices.IndexFunc(p3.RoundView.ProposedHeaders,$c) < 0)", false, nil)
				ok = ok && len(e) > 0 && a.EveryPathTakes(s.Instr, e)
				// the very closure that selects the header for this request compares the header's hash
				// with the most-voted PRECOMMIT hash of the same view (p3) whose headers are searched
				okClosure := false
				if m := regexp.MustCompile(`p3\.RoundView\.ProposedHeaders\[@slices\.IndexFunc\(p3\.RoundView\.ProposedHeaders,closure:([^)\]]+)\)\]`).FindStringSubmatch(v); m != nil {
					if cf := w.Fn(m[1]); cf != nil {
						aa := w.A(cf)
						rets := aa.Returns()
						okClosure = len(rets) > 0
						for _, ret := range rets {
							rs := aa.sh.Of(ret.Results[0]).String()
							mm := regexp.MustCompile(`^\((?:p0\.Header\.Hash == \^(\w+)\.RoundView\.VoteSummary\.MostVotedPrecommitHash|\^(\w+)\.RoundView\.VoteSummary\.MostVotedPrecommitHash == p0\.Header\.Hash)\)$`).FindStringSubmatch(rs)
							if mm == nil {
								okClosure = false
								continue
							}
							fv := mm[1] + mm[2]
							// the captured variable is the view parameter itself
							bound := false
							a.Instrs(func(in ssa.Instruction) {
								mc, isMC := in.(*ssa.MakeClosure)
								if !isMC || mc.Fn != ssa.Value(cf) {
									return
								}
								for j, f := range cf.FreeVars {
									if f.Name() == fv && j < len(mc.Bindings) && a.sh.load(mc.Bindings[j]).String() == "p3" {
										bound = true
									}
								}
							})
							if !bound {
								okClosure = false
							}
						}
					}
				}
				ok = ok && okClosure
			case "tmstate.StateMachine.advance", "tmstate.StateMachine.sendInitialActionSet":
				ok = ok && strings.Contains(v, ".CH.Header") && strings.Contains(v, ".CH.Proof.Round")
			}
			r.Check(ok, "C08.3", con, w.InstrPos(s.Instr), "finalize request: "+truncate(v, 220))
		}
	}
	r.Expect("C08.3", 12, "commit guards")
	r.Rule("C08.9", "the precommit decision is requested only on a Tendermint trigger: every DecidePrecommitRequest send lies behind a prevote majority for one target, precommit power at a Byzantine threshold, the prevote-delay step in the timer handler, or the AwaitingPrecommits classification at round entry")
	decidePrecommitTriggers(r, "C08.9")

	// ---- C08.4 round advances
	vs := "$v.RoundView.VoteSummary"
	for _, c := range w.CallersOf(w.ProdFuncs(), "tmstate.StateMachine.advanceRound") {
		a := w.A(c.Fn)
		con := ord.Next(FuncName(c.Fn) + "->advanceRound")
		alts := [][]G{
			{ // nil majority
				{Name: "majority", Pattern: "(" + vs + ".PrecommitBlockPower[" + vs + ".MostVotedPrecommitHash] < @tmconsensus.ByzantineMajority(" + vs + ".AvailablePower))", Holds: false},
				{Name: "nil-hash", Pattern: "(" + vs + `.MostVotedPrecommitHash == "")`, Holds: true},
			},
			{ // fully voted without majority
				{Name: "fully-voted", Pattern: "(" + vs + ".TotalPrecommitPower == " + vs + ".AvailablePower)", Holds: true},
				{Name: "majority-present", Pattern: "(" + vs + ".TotalPrecommitPower < @tmconsensus.ByzantineMajority(" + vs + ".AvailablePower))", Holds: false},
			},
			{ // precommit delay timeout
				{Name: "precommit-delay", Pattern: "(p2.S == %tsi.StepPrecommitDelay)", Holds: true},
			},
			{ // commit-wait classification with nil hash at round entry
				{Name: "commit-wait-classification", Pattern: "(@tsi.GetStepFromVoteSummary($s) == %tsi.StepCommitWait)", Holds: true},
				{Name: "nil-hash", Pattern: `($h == "")`, Holds: true},
			},
			{ // jump ahead
				{Name: "same-height", Pattern: "(p3.RoundView.Height == p2.H)", Holds: true},
				{Name: "later-round", Pattern: "(p2.R < p3.RoundView.Round)", Holds: true},
			},
		}
		okAny := false
		which := ""
		for _, alt := range alts {
			all := true
			for _, g := range alt {
				e, _ := a.IfEdges(g.Pattern, g.Holds, nil)
				if len(e) == 0 || !a.EveryPathTakes(c.Instr, e) {
					all = false
				}
			}
			if all {
				okAny = true
				which = alt[0].Name
			}
		}
		r.Check(okAny, "C08.4", con, w.InstrPos(c.Instr), "a round may be left only on a nil precommit quorum, a fully voted round without quorum, the precommit-delay timeout, or a jump-ahead; justification found: "+which)
	}
	r.Expect("C08.4", 6, "round advances")

	// ---- C08.5 height advances
	for _, c := range w.CallersOf(w.ProdFuncs(), "tmstate.StateMachine.advanceHeight") {
		a := w.A(c.Fn)
		con := FuncName(c.Fn) + "->advanceHeight"
		switch c.Fn.Name() {
		case "handleFinalization":
			r.RequireGuards(a, "C08.5", con, c.Instr,
				G{Name: "finalization-stored", Pattern: "(@@tmstore.FinalizationStore.SaveFinalization($...) == nil)", Holds: true},
				G{Name: "awaiting-finalization", Pattern: "(p2.S == %tsi.StepAwaitingFinalization)", Holds: true})
		case "handleTimerElapsed":
			r.RequireGuards(a, "C08.5", con, c.Instr,
				G{Name: "commit-wait", Pattern: "(p2.S == %tsi.StepCommitWait)", Holds: true},
				G{Name: "finalized", Pattern: "(@len(p2.FinalizedValSet.Validators) == 0)", Holds: false})
		case "handleHeightCommitted":
			r.RequireGuards(a, "C08.5", con, c.Instr,
				G{Name: "commit-wait", Pattern: "(p2.S == %tsi.StepCommitWait)", Holds: true},
				G{Name: "finalized", Pattern: "(@len(p2.FinalizedValSet.Validators) == 0)", Holds: false})
		default:
			r.Fail("C08.5", con, w.InstrPos(c.Instr), "unexpected caller of advanceHeight")
		}
	}
	// the finalization stored is the driver's answer for the current height and round
	if fn := w.Fn("tmstate.StateMachine.handleFinalization"); fn != nil {
		a := w.AU(fn)
		for i, c := range a.CallsTo("tmstore.FinalizationStore.SaveFinalization") {
			hs := a.sh.Of(CallArg(c, 2)).String()
			rs := a.sh.Of(CallArg(c, 3)).String()
			r.Check(hs == "p2.H" && rs == "p2.R", "C08.5", fmt.Sprintf("tmstate.StateMachine.handleFinalization#save%d", i+1), w.InstrPos(c), "finalization stored under the lifecycle's height and round: "+hs+"/"+rs)
			r.RequireGuards(a, "C08.5", fmt.Sprintf("tmstate.StateMachine.handleFinalization#save%d", i+1), c,
				G{Name: "response-height", Pattern: "(p3.Height == p2.H)", Holds: true},
				G{Name: "response-round", Pattern: "(p3.Round == p2.R)", Holds: true})
		}
	}
	r.Expect("C08.5", 8, "height advances")

	checkHandleViewUpdateGuards(r, "C08.6")

	// ---- C08.7
	if fn := w.Fn("tsi.GetStepFromVoteSummary"); fn != nil {
		steps := w.ResultConsts(fn, 0).Sorted()
		for _, cn := range []struct{ fn, subject string }{
			{"tmstate.StateMachine.beginRoundLive", "@tsi.GetStepFromVoteSummary($...)"},
			{"tmstate.StateMachine.startInitialTimer", "p2.S"},
		} {
			cf := w.Fn(cn.fn)
			if cf == nil {
				r.Fail("C08.7", cn.fn, "", "not found")
				continue
			}
			ca := w.AU(cf)
			si := ca.SwitchOn(cn.subject)
			panics := ca.CasePanics(cn.subject)
			for _, s := range steps {
				con := "Step[" + s + "]->" + cn.fn
				ok := (si.Handled[s] && !panics[s]) || (!si.Handled[s] && !si.DefaultPanics)
				// startInitialTimer is reached with the step beginRoundLive stored, i.e. only steps that survived its switch
				if cn.fn == "tmstate.StateMachine.startInitialTimer" && !ok {
					bl := w.AU(w.Fn("tmstate.StateMachine.beginRoundLive"))
					bsi := bl.SwitchOn("@tsi.GetStepFromVoteSummary($...)")
					if !bsi.Handled[s] && bsi.DefaultPanics {
						r.Pass("C08.7", con, w.Pos(cf.Pos()), "unreachable here: the round-begin switch already panics for this step (reported there)")
						continue
					}
				}
				r.Check(ok, "C08.7", con, w.Pos(cf.Pos()), "a step the step function can return must be handled without panicking when a round is entered")
			}
		}
	}
	r.Expect("C08.7", 8, "step handling")
	// "chooses its prevote at most once / asks for its precommit exactly once" also rests on the
	// latch that disarms the strategy's answer channel after the first answer of a round
	r.Borrow(runC02, "C02", "C02.4", "C08.8", "the strategy's answer channels are disarmed after the first answer of a round on every continuing path, so a second choice in the same round cannot be recorded")
}

func uniqStrings(xs []string) []string {
	m := map[string]bool{}
	var out []string
	for _, x := range xs {
		if !m[x] {
			m[x] = true
			out = append(out, x)
		}
	}
	return out
}
