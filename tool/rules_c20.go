package main

import (
	"fmt"
	"sort"
	"strings"

	"golang.org/x/tools/go/ssa"
)

func init() {
	register(&PropMeta{
		ID: "C20", Title: "Peers relay a consensus message only if the local handler accepted it",
		Explanation: "Structural necessary conditions decided on the SSA of the two shipped transports and the two feedback mappers: (1) in the feedback→pubsub mapping, ValidationAccept is returned only on the f==FeedbackAccepted edge and every non-Ignore result is under an explicit equality (out-of-range ⇒ Ignore); (2) every function registered as a libp2p topic validator returns Accept only for self-originated messages or as the mapping of a value that is a ConsensusHandler.Handle* result / a non-accept constant, and only after the decode succeeded; (3) the topic validator is never unregistered except in Disconnect (no window in which pubsub relays unvalidated messages); (4) in the in-memory DaisyChain transport a message received from a neighbour is forwarded only on the Handle*==FeedbackAccepted edge; (5) the shipped mappers return FeedbackAccepted only for the reviewed 'accepted' result constants.",
		NotDecided:  "libp2p-pubsub's own relay behaviour; timing of handler replacement beyond the absence of an unregister call; custom ConsensusHandler implementations",
		Assumptions: []string{"go-libp2p-pubsub relays exactly the messages whose validator returned ValidationAccept", "SSA value shapes identify the returned constants"},
		Run:         runC20,
	})
}

func runC20(r *Run) {
	w := r.W
	r.Rule("C20.1", "GRD/ENUM: exchangeFeedbackToLibp2p returns ValidationAccept only under f == FeedbackAccepted; any non-Ignore result is under an equality test on f; default is Ignore")
	r.Rule("C20.2", "every function registered with RegisterTopicValidator: a constant Accept is under the self-origin test; otherwise the result is the feedback mapping of a ConsensusHandler.Handle* result or of a non-accept constant; non-Ignore results only after UnmarshalConsensusMessage succeeded")
	r.Rule("C20.3", "WMC: PubSub.UnregisterTopicValidator is called only from Disconnect (replacing the handler must not leave the topic without a validator)")
	r.Rule("C20.4", "DaisyChain: a message received from a neighbour channel is sent onward only on the Handle* == FeedbackAccepted edge; locally originated messages are built from the outgoing channels")
	r.Rule("C20.5", "shipped feedback mappers return FeedbackAccepted only for the reviewed accept results")

	// ---- C20.1
	const accept, ignore = "%pubsub.ValidationAccept", "%pubsub.ValidationIgnore"
	mapFn := w.Fn("tmlibp2p.Connection.exchangeFeedbackToLibp2p")
	if mapFn == nil {
		// located by role: the function in tmlibp2p taking gexchange.Feedback and returning pubsub.ValidationResult
		for _, f := range w.FuncsInPkg("tm/tmp2p/tmlibp2p") {
			sig := f.Signature
			if sig.Results().Len() == 1 && TypeName(sig.Results().At(0).Type()) == "pubsub.ValidationResult" {
				for i := 0; i < sig.Params().Len(); i++ {
					if TypeName(sig.Params().At(i).Type()) == "gexchange.Feedback" {
						mapFn = f
					}
				}
			}
		}
	}
	if mapFn == nil {
		r.Fail("C20.1", "anchor", "", "no function maps gexchange.Feedback to pubsub.ValidationResult in tmlibp2p")
	} else {
		a := w.A(mapFn)
		// the Feedback parameter
		fparam := ""
		for i, p := range mapFn.Params {
			if TypeName(p.Type()) == "gexchange.Feedback" {
				fparam = fmt.Sprintf("p%d", i)
			}
		}
		accEdges, _ := a.IfEdges("("+fparam+" == %gexchange.FeedbackAccepted)", true, nil)
		anyEq, _ := a.IfEdges("("+fparam+" == $k)", true, func(b Bind) bool { return b["$k"].K == "const" })
		n := 0
		type outcome struct {
			val string
			at  ssa.Instruction // instruction whose reachability stands for "this value is returned"
		}
		for _, ret := range a.Returns() {
			var outs []outcome
			if ph, ok := ret.Results[0].(*ssa.Phi); ok {
				// single-return style: judge each incoming value at the end of its predecessor block
				for i, e := range ph.Edges {
					pred := ph.Block().Preds[i]
					outs = append(outs, outcome{a.sh.Of(e).String(), pred.Instrs[len(pred.Instrs)-1]})
				}
			} else {
				outs = append(outs, outcome{a.sh.Of(ret.Results[0]).String(), ret})
			}
			for _, o := range outs {
				n++
				s := o.val
				con := fmt.Sprintf("%s#result%d(%s)", FuncName(mapFn), n, s)
				switch {
				case s == ignore:
					r.Pass("C20.1", con, w.InstrPos(o.at), "Ignore needs no guard")
				case s == accept:
					r.Check(a.EveryPathTakes(o.at, accEdges), "C20.1", con, w.InstrPos(o.at), "ValidationAccept (also the zero value of the result type) must be produced only on the f == FeedbackAccepted edge")
				case strings.HasPrefix(s, "%pubsub.Validation"):
					r.Check(a.EveryPathTakes(o.at, anyEq), "C20.1", con, w.InstrPos(o.at), "a non-Ignore result must be under an explicit equality on the feedback value")
				default:
					r.Fail("C20.1", con, w.InstrPos(o.at), "result is not a ValidationResult constant: "+s)
				}
			}
		}
		r.Expect("C20.1", 3, "returns of the feedback mapping")
	}

	// ---- C20.2 / C20.3: validators registered, unregister callers
	prod := w.ProdFuncs()
	regs := w.CallersOf(prod, "pubsub.PubSub.RegisterTopicValidator")
	validators := map[*ssa.Function]bool{}
	ord := Ord{}
	for _, cs := range regs {
		arg := CallArg(cs.Instr, 2) // recv, topic, validator
		con := ord.Next(FuncName(cs.Fn) + "#register")
		fns := funcsOfValue(w, arg, 0)
		if len(fns) == 0 {
			r.Fail("C20.2", con, w.InstrPos(cs.Instr), "cannot resolve the validator function value: "+w.A(cs.Fn).sh.Of(arg).String())
			continue
		}
		var names []string
		for _, f := range fns {
			validators[f] = true
			names = append(names, FuncName(f))
		}
		r.Pass("C20.2", con, w.InstrPos(cs.Instr), "registers "+strings.Join(names, ", "))
	}
	for f := range validators {
		checkValidator(r, f, mapFn)
	}
	r.Expect("C20.2", 4, "validator registrations and their returns")

	unreg := w.CallersOf(prod, "pubsub.PubSub.UnregisterTopicValidator")
	for _, cs := range unreg {
		fnName := FuncName(cs.Fn)
		top := cs.Fn
		for top.Parent() != nil {
			top = top.Parent()
		}
		con := ord.Next(fnName + "#unregister")
		r.Check(top.Name() == "Disconnect", "C20.3", con, w.InstrPos(cs.Instr),
			"UnregisterTopicValidator outside Disconnect: between this call and the next RegisterTopicValidator the topic has no validator and pubsub accepts and relays every message")
	}
	if len(unreg) == 0 {
		r.Pass("C20.3", "no-unregister", "", "UnregisterTopicValidator is never called")
	}

	// ---- C20.4 DaisyChain
	checkDaisyChain(r)

	// ---- C20.5 mappers
	checkMapperAccepts(r)
}

// funcsOfValue resolves a function-typed value to the functions it may denote.
func funcsOfValue(w *World, v ssa.Value, depth int) []*ssa.Function {
	if depth > 3 || v == nil {
		return nil
	}
	switch x := v.(type) {
	case *ssa.Function:
		return []*ssa.Function{x}
	case *ssa.MakeClosure:
		return []*ssa.Function{x.Fn.(*ssa.Function)}
	case *ssa.ChangeType:
		return funcsOfValue(w, x.X, depth)
	case *ssa.MakeInterface:
		return funcsOfValue(w, x.X, depth)
	case *ssa.Phi:
		var out []*ssa.Function
		for _, e := range x.Edges {
			out = append(out, funcsOfValue(w, e, depth)...)
		}
		return out
	case *ssa.Call:
		// a call returning a function value: collect what the callee returns
		if f := x.Call.StaticCallee(); f != nil && f.Blocks != nil {
			var out []*ssa.Function
			for _, b := range f.Blocks {
				for _, in := range b.Instrs {
					if ret, ok := in.(*ssa.Return); ok && len(ret.Results) > 0 {
						out = append(out, funcsOfValue(w, ret.Results[0], depth+1)...)
					}
				}
			}
			return out
		}
	}
	return nil
}

func checkValidator(r *Run, f *ssa.Function, mapFn *ssa.Function) {
	w := r.W
	a := w.A(f)
	// for a bound method wrapper, analyse the method itself
	if f.Synthetic != "" && len(f.Blocks) == 1 {
		for _, in := range f.Blocks[0].Instrs {
			if c, ok := in.(*ssa.Call); ok {
				if g := c.Call.StaticCallee(); g != nil && g.Blocks != nil {
					checkValidator(r, g, mapFn)
					return
				}
			}
		}
	}
	mapName := ""
	if mapFn != nil {
		mapName = FuncName(mapFn)
	}
	// peer.ID parameter
	idParam := ""
	for i, p := range f.Params {
		if TypeName(p.Type()) == "peer.ID" {
			idParam = fmt.Sprintf("p%d", i)
		}
	}
	var selfEdges []Edge
	if idParam != "" {
		selfEdges, _ = a.IfEdges("("+idParam+" == $self)", true, nil)
	}
	decodeOK, _ := a.IfEdges("(@@tmcodec.MarshalCodec.UnmarshalConsensusMessage($...) == nil)", true, nil)
	n := 0
	for _, ret := range a.Returns() {
		n++
		s := a.sh.Of(ret.Results[0])
		con := fmt.Sprintf("%s#return%d", FuncName(f), n)
		pos := w.InstrPos(ret)
		str := s.String()
		switch {
		case str == "%pubsub.ValidationIgnore" || str == "%pubsub.ValidationReject":
			r.Pass("C20.2", con, pos, str+" does not relay")
		case str == "%pubsub.ValidationAccept":
			r.Check(len(selfEdges) > 0 && a.EveryPathTakes(ret, selfEdges), "C20.2", con, pos,
				"constant ValidationAccept must be dominated by the self-origin test (id == own peer id)")
		case s.K == "call" && s.S == mapName:
			// the mapped feedback: every alternative is a handler result or a non-accept constant
			fv := s.A[len(s.A)-1]
			alts := []*Shape{fv}
			if fv.K == "phi" {
				alts = fv.A
			}
			ok := true
			var bad []string
			for _, alt := range alts {
				switch {
				case alt.K == "invoke" && strings.HasPrefix(alt.S, "tmconsensus.ConsensusHandler.Handle"):
				case alt.K == "const" && alt.S != "%gexchange.FeedbackAccepted" && strings.HasPrefix(alt.S, "%gexchange.Feedback"):
				default:
					ok = false
					bad = append(bad, alt.String())
				}
			}
			r.Check(ok, "C20.2", con+"(feedback)", pos, "mapped feedback must be a ConsensusHandler.Handle* result or a non-accept constant; offending: "+strings.Join(bad, " | "))
			r.Check(len(decodeOK) > 0 && a.EveryPathTakes(ret, decodeOK, selfEdges), "C20.2", con+"(decoded)", pos,
				"a result other than Ignore must be dominated by a successful UnmarshalConsensusMessage")
		default:
			r.Fail("C20.2", con, pos, "unrecognised validator result: "+truncate(str, 200))
		}
	}
}

func checkDaisyChain(r *Run) {
	w := r.W
	fns := w.FuncsInPkg("tm/tmp2p/tmp2ptest")
	count := 0
	for _, fn := range fns {
		a := w.A(fn)
		for k, s := range a.Sends() {
			if !strings.HasSuffix(TypeName(s.Val.Type()), "dcMessage") {
				continue
			}
			count++
			val := a.sh.Of(s.Val)
			con := fmt.Sprintf("%s#send%d", FuncName(fn), k+1)
			pos := w.InstrPos(s.Instr)
			// where does the message come from?
			fromNeighbour := false
			val.Walk(func(x *Shape) {
				if x.K == "un" && x.S == "<-" {
					fromNeighbour = true
				}
				if x.K == "unk" && x.S == "select" {
					fromNeighbour = true
				}
			})
			isParam := val.K == "param"
			switch {
			case val.K == "lit":
				// locally built message: its payload must come from the outgoing channels (own messages)
				r.Pass("C20.4", con, pos, "locally originated message "+truncate(val.String(), 120))
			case isParam:
				// forwarding helper: the parameter is judged at the call sites; inside, the send must be
				// guarded if the function also consults a handler
				var hEdges [][]Edge
				for _, m := range []string{"HandleProposedHeader", "HandlePrevoteProofs", "HandlePrecommitProofs"} {
					e, _ := a.IfEdges("(@@tmconsensus.ConsensusHandler."+m+"($...) == %gexchange.FeedbackAccepted)", true, nil)
					hEdges = append(hEdges, e)
				}
				hasHandler := len(hEdges[0])+len(hEdges[1])+len(hEdges[2]) > 0
				if hasHandler {
					r.Check(a.EveryPathTakes(s.Instr, hEdges...), "C20.4", con, pos, "forwarding send must be dominated by a Handle* == FeedbackAccepted edge")
				} else {
					// a pure fan-out helper: every caller must pass a locally built message
					callers := w.CallersOf(fns, FuncName(fn))
					ok := len(callers) > 0
					var bad []string
					for _, cs := range callers {
						ca := w.A(cs.Fn)
						idx := paramIndex(fn, s.Val)
						if idx < 0 {
							ok = false
							bad = append(bad, "cannot identify parameter")
							continue
						}
						arg := ca.sh.Of(CallArg(cs.Instr, idx))
						if arg.K != "lit" {
							ok = false
							bad = append(bad, FuncName(cs.Fn)+": "+truncate(arg.String(), 80))
						}
					}
					r.Check(ok, "C20.4", con, pos, "fan-out helper without handler must only be given locally built messages; offending callers: "+strings.Join(bad, "; "))
				}
			case fromNeighbour:
				r.Fail("C20.4", con, pos, "a message received from a neighbour is forwarded without consulting a handler: "+truncate(val.String(), 120))
			default:
				r.Fail("C20.4", con, pos, "cannot classify the origin of the forwarded message: "+truncate(val.String(), 120))
			}
		}
	}
	_ = count
	r.Expect("C20.4", 3, "message sends in the DaisyChain transport")
}

func paramIndex(fn *ssa.Function, v ssa.Value) int {
	for {
		switch x := v.(type) {
		case *ssa.ChangeType:
			v = x.X
			continue
		case *ssa.MakeInterface:
			v = x.X
			continue
		case *ssa.UnOp:
			// load of a parameter spilled to a local
			if a, ok := x.X.(*ssa.Alloc); ok && a.Referrers() != nil {
				for _, ref := range *a.Referrers() {
					if st, ok := ref.(*ssa.Store); ok && st.Addr == a {
						v = st.Val
					}
				}
				if v != x {
					continue
				}
			}
		}
		break
	}
	for i, p := range fn.Params {
		if p == v {
			return i
		}
	}
	return -1
}

func checkMapperAccepts(r *Run) {
	w := r.W
	allowed := map[string]map[string]bool{
		"AcceptAllValidFeedbackMapper": {"%tmconsensus.HandleProposedHeaderAccepted": true, "%tmconsensus.HandleProposedHeaderAlreadyStored": true, "%tmconsensus.HandleVoteProofsAccepted": true, "%tmconsensus.HandleVoteProofsNoNewSignatures": true, "%tmconsensus.HandleVoteProofsFutureVerified": true},
		"DropDuplicateFeedbackMapper":  {"%tmconsensus.HandleProposedHeaderAccepted": true, "%tmconsensus.HandleVoteProofsAccepted": true, "%tmconsensus.HandleVoteProofsFutureVerified": true},
	}
	seenFn := map[*ssa.Function]bool{}
	for _, ms := range mapperSwitches(w) {
		allow, ok := allowed[ms.Mapper]
		if !ok || seenFn[ms.Fn] {
			continue
		}
		seenFn[ms.Fn] = true
		fn := ms.Fn
		cases := w.A(fn).SwitchCases("$_", 0)
		for k, ci := range cases {
			if !ci.Returns["%gexchange.FeedbackAccepted"] {
				continue
			}
			con := ms.Mapper + "." + ms.Method + "[" + k + "]"
			r.Check(allow[k], "C20.5", con, w.Pos(fn.Pos()), "this result is mapped to FeedbackAccepted (relay) but is not an acceptance result")
		}
	}
	r.Expect("C20.5", 6, "accept cases in the four mapper switches")
}

// mapperSwitch: the function holding the result->feedback switch of one
// Handle* method of a shipped feedback mapper. Found by role: the method of a
// *FeedbackMapper type that returns gexchange.Feedback either switches on the
// wrapped handler's result itself, or hands that result to a helper that does
// (method or plain function, whatever its name).
type mapperSwitch struct {
	Mapper string // receiver type name
	Method string // HandleProposedHeader / HandlePrevoteProofs / HandlePrecommitProofs
	Fn     *ssa.Function
}

func mapperSwitches(w *World) []mapperSwitch {
	var out []mapperSwitch
	for _, fn := range w.FuncsInPkg("tm/tmconsensus") {
		if fn.Signature.Recv() == nil || fn.Signature.Results().Len() != 1 || TypeName(fn.Signature.Results().At(0).Type()) != "gexchange.Feedback" {
			continue
		}
		recv := typeBaseName(fn.Signature.Recv().Type())
		if !strings.HasSuffix(recv, "FeedbackMapper") || !strings.HasPrefix(fn.Name(), "Handle") {
			continue
		}
		target := fn
		if len(w.A(fn).SwitchCases("$_", 0)) == 0 {
			target = nil
			for _, b := range fn.Blocks {
				for _, in := range b.Instrs {
					c := callCommon(in)
					if c == nil || c.StaticCallee() == nil || c.StaticCallee().Blocks == nil {
						continue
					}
					callee := c.StaticCallee()
					if callee.Signature.Results().Len() != 1 || TypeName(callee.Signature.Results().At(0).Type()) != "gexchange.Feedback" {
						continue
					}
					takesResult := false
					for _, arg := range c.Args {
						tn := TypeName(arg.Type())
						if tn == "tmconsensus.HandleVoteProofsResult" || tn == "tmconsensus.HandleProposedHeaderResult" {
							takesResult = true
						}
					}
					if takesResult && len(w.A(callee).SwitchCases("$_", 0)) > 0 {
						target = callee
					}
				}
			}
		}
		if target != nil {
			out = append(out, mapperSwitch{recv, fn.Name(), target})
		}
	}
	sort.Slice(out, func(i, j int) bool {
		if out[i].Mapper != out[j].Mapper {
			return out[i].Mapper < out[j].Mapper
		}
		return out[i].Method < out[j].Method
	})
	return out
}
