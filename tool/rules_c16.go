package main

import (
	"fmt"
	"go/ast"
	"go/token"
	"go/types"
	"strings"

	"golang.org/x/tools/go/ssa"
)

func init() {
	register(&PropMeta{
		ID: "C16", Title: "In-memory stores are linearizable and honour no-overwrite contracts",
		Explanation: "Lockset dataflow over the SSA of every method of every mutex-carrying type in tm/tmstore/tmmemstore: each access to a guarded field (and to any map/slice reached from it) happens while the receiver's mutex is held, writes under the write lock, one lock acquisition per method and no access after release — with no state outside the guarded fields this makes each method one atomic step, the structural condition for linearizability. On top of that: guard dominance for the refusal contracts (second action per round, changed key, finalization overwrite, duplicate validator data), key/value wiring of every map write and load (the value stored under a key is loaded back under the same key from the same map; prevote and precommit collections are not crossed), and the documented not-found error on the miss edge of every Load*.",
		NotDecided:  "sequential behaviour beyond the checked guards and wiring (e.g. contents of RoundStore.LoadRoundState's merged header list); aliasing of slices handed in or out (SavePubKeys stores the caller's slice)",
		Assumptions: []string{"sync.Mutex/RWMutex semantics", "no reflection/unsafe access to store fields"},
		Run:         runC16,
	})
}

func runC16(r *Run) {
	w := r.W
	r.Rule("C16.1", "LOCK: every access to a guarded field of a tmmemstore type is under the receiver's mutex (writes under Lock), each method has exactly one acquisition, fields outside the lock are constructor-only")
	r.Rule("C16.2", "GRD: ActionStore.Save*Action stores only when no such action exists for the (height, round) key and the recorded key, if any, equals the offered one; refusals return DoubleActionError / PubKeyChangedError")
	r.Rule("C16.3", "GRD: FinalizationStore.SaveFinalization stores only on the miss edge of a lookup with the same height key; refusal returns FinalizationOverwriteError")
	r.Rule("C16.4", "PROV: ValidatorStore stores keys/powers under the hash computed from that very slice by the configured scheme, only on the miss edge; hit returns the AlreadyExist error")
	r.Rule("C16.6", "no silent replacement: every map update of a store either accumulates (append to the same entry), is refused once the key was found present, rewrites the action record in place, or belongs to one of three methods whose contract is replacement")
	r.Rule("C16.5", "every Load* returns the documented not-found error type on the miss edge and the value looked up under the requested key otherwise; Set/Get pairs are wired field-for-field")
	r.Rule("C16.6", "map writes use the key derived from the saved value / the arguments, and prevote/precommit collections are kept apart")

	// ---------- C16.1
	types_ := lockedTypes(w, "tm/tmstore/tmmemstore")
	if len(types_) < 7 {
		r.Fail("C16.1", "types", "", fmt.Sprintf("expected 7 mutex-guarded store types in tmmemstore, found %d", len(types_)))
	}
	pkgFns := w.FuncsInPkg("tm/tmstore/tmmemstore")
	for _, named := range types_ {
		st := named.Underlying().(*types.Struct)
		mu, _ := mutexField(st)
		tname := "tmmemstore." + named.Obj().Name()
		// immutable fields: never stored outside functions that allocate the struct
		immutable := map[string]bool{}
		for i := 0; i < st.NumFields(); i++ {
			if i == mu {
				continue
			}
			f := st.Field(i).Name()
			writes := w.FieldWrites(pkgFns, tname, f)
			onlyCtor := true
			sawStore := false
			for _, fw := range writes {
				if fw.Kind != "store" || len(fw.Path) != 1 {
					continue // writes through the field (map updates etc.) are not assignments of the field
				}
				sawStore = true
				if fw.Fn.Signature.Recv() != nil {
					onlyCtor = false
				}
			}
			// a field is exempt from locking only if it is assigned in constructors only AND never
			// mutated through (no map update / element store reaches it)
			mutatedThrough := false
			for _, fw := range writes {
				if fw.Kind == "mapupdate" || (fw.Kind == "store" && len(fw.Path) > 1) {
					mutatedThrough = true
				}
			}
			if sawStore && onlyCtor && !mutatedThrough && !isRefType(st.Field(i).Type()) {
				immutable[f] = true
			}
			if sawStore && onlyCtor && !mutatedThrough && TypeName(st.Field(i).Type()) == "tmconsensus.HashScheme" {
				immutable[f] = true
			}
		}
		nm := 0
		var methods []*ssa.Function
		for _, fn := range pkgFns {
			if fn.Signature.Recv() == nil || typeBaseName(fn.Signature.Recv().Type()) != named.Obj().Name() || fn.Parent() != nil {
				continue
			}
			methods = append(methods, fn)
		}
		// lock level every caller holds when it enters an unexported helper method of the same
		// receiver (a helper that takes no lock itself runs inside its callers' critical section)
		reps := map[*ssa.Function]*lockReport{}
		for _, fn := range methods {
			reps[fn] = analyseLocks(fn, mu, immutable)
		}
		heldAtEntry := map[*ssa.Function]lockLevel{}
		for _, fn := range methods {
			if fn.Object() != nil && fn.Object().Exported() || reps[fn].Acquisitions > 0 {
				continue
			}
			lvl, n := lkWrite, 0
			for _, caller := range methods {
				for c, l := range reps[caller].SelfCalls {
					if c.Call.StaticCallee() == fn {
						n++
						if l < lvl {
							lvl = l
						}
					}
				}
			}
			if n > 0 {
				heldAtEntry[fn] = lvl
			}
		}
		for _, fn := range methods {
			nm++
			rep := reps[fn]
			con := FuncName(fn)
			pos := w.Pos(fn.Pos())
			if lvl, isHelper := heldAtEntry[fn]; isHelper && rep.Accesses > 0 {
				hrep := analyseLocksFrom(fn, mu, immutable, lvl)
				detail := fmt.Sprintf("helper entered with the lock held by every caller (weakest level %d): %d guarded accesses (%d writes) to %v", lvl, hrep.Accesses, hrep.Writes, setKeys(hrep.GuardedUsed))
				for _, f := range hrep.Findings {
					detail += "; " + w.InstrPos(f.Instr) + ": " + f.Msg
				}
				r.Check(len(hrep.Findings) == 0 && hrep.Acquisitions == 0, "C16.1", con, pos, detail)
				continue
			}
			if rep.Accesses == 0 {
				r.Pass("C16.1", con, pos, "no guarded field accessed")
				continue
			}
			ok := len(rep.Findings) == 0 && rep.Acquisitions == 1
			detail := fmt.Sprintf("%d guarded accesses (%d writes) to %v, %d lock acquisition(s)", rep.Accesses, rep.Writes, setKeys(rep.GuardedUsed), rep.Acquisitions)
			if rep.Acquisitions != 1 {
				detail += "; a method must be a single critical section"
			}
			for _, f := range rep.Findings {
				detail += "; " + w.InstrPos(f.Instr) + ": " + f.Msg
			}
			r.Check(ok, "C16.1", con, pos, detail)
		}
		// closures inside methods touching the receiver are not expected
		if nm == 0 {
			r.Fail("C16.1", tname, "", "no methods found")
		}
	}
	r.Expect("C16.1", 20, "store methods")

	actionStoreRules(r, "C16.2")

	// ---------- C16.3 FinalizationStore
	if fn := w.Fn("tmmemstore.FinalizationStore.SaveFinalization"); fn == nil {
		r.Fail("C16.3", "SaveFinalization", "", "method not found")
	} else {
		a := w.AU(fn)
		ups := mapUpdates(a, "p0.byHeight")
		miss, _ := a.IfEdges("p0.byHeight[p2]#1", false, nil)
		for i, up := range ups {
			con := fmt.Sprintf("%s#store%d", FuncName(fn), i+1)
			r.Check(len(miss) > 0 && a.EveryPathTakes(up, miss), "C16.3", con, w.InstrPos(up), "store must be on the miss edge of byHeight[height]")
			r.Check(a.sh.Of(up.Key).String() == "p2", "C16.3", con+"(key)", w.InstrPos(up), "stored under the height argument; key "+a.sh.Of(up.Key).String())
			val := a.sh.Of(up.Value).String()
			want := []string{"H:p2", "R:p3", "BlockHash:p4", "ValSet:p5", "AppStateHash:p6"}
			okv := true
			for _, x := range want {
				if !strings.Contains(val, x) {
					okv = false
				}
			}
			r.Check(okv, "C16.3", con+"(value)", w.InstrPos(up), "stored record carries each argument in its field: "+val)
		}
		if len(ups) == 0 {
			r.Fail("C16.3", "SaveFinalization#store", w.Pos(fn.Pos()), "no map write found")
		}
		rets := returnShapes(a, 0)
		r.Check(containsPrefix(rets, "lit:tmstore.FinalizationOverwriteError"), "C16.3", FuncName(fn)+"(refusal)", w.Pos(fn.Pos()), "returns FinalizationOverwriteError; returns: "+strings.Join(rets, " | "))
	}
	if fn := w.Fn("tmmemstore.FinalizationStore.LoadFinalizationByHeight"); fn != nil {
		a := w.AU(fn)
		hit, _ := a.IfEdges("p0.byHeight[p2]#1", true, nil)
		for i, ret := range a.Returns() {
			con := fmt.Sprintf("%s#return%d", FuncName(fn), i+1)
			errS := a.sh.Of(ret.Results[4]).String()
			if errS == "nil" {
				var got []string
				for _, x := range ret.Results[:4] {
					got = append(got, a.sh.Of(x).String())
				}
				want := []string{"p0.byHeight[p2]#0.R", "p0.byHeight[p2]#0.BlockHash", "p0.byHeight[p2]#0.ValSet", "p0.byHeight[p2]#0.AppStateHash"}
				r.Check(strings.Join(got, ",") == strings.Join(want, ",") && a.EveryPathTakes(ret, hit), "C16.5", con, w.InstrPos(ret), "hit returns the record's fields in order: "+strings.Join(got, ","))
			} else {
				r.Check(strings.HasPrefix(errS, "lit:tmconsensus.HeightUnknownError{Want:p2"), "C16.5", con, w.InstrPos(ret), "miss returns HeightUnknownError{Want: height}: "+errS)
			}
		}
	}

	// ---------- C16.4 ValidatorStore
	for _, vr := range []struct{ fn, m, scheme, errT, val string }{
		{"tmmemstore.ValidatorStore.SavePubKeys", "p0.keys", "@@tmconsensus.HashScheme.PubKeys(p0.hs,p2)#0", "lit:tmstore.PubKeysAlreadyExistError", "p2"},
		{"tmmemstore.ValidatorStore.SaveVotePowers", "p0.pows", "@@tmconsensus.HashScheme.VotePowers(p0.hs,p2)#0", "lit:tmstore.VotePowersAlreadyExistError", "@slices.Clone(p2)"},
	} {
		fn := w.Fn(vr.fn)
		if fn == nil {
			r.Fail("C16.4", vr.fn, "", "method not found")
			continue
		}
		a := w.AU(fn)
		ups := mapUpdates(a, vr.m)
		miss, _ := a.IfEdges(vr.m+"["+vr.scheme+"]#1", false, nil)
		okErr, _ := a.IfEdges("("+strings.TrimSuffix(vr.scheme, "#0")+"#1 == nil)", true, nil)
		for i, up := range ups {
			con := fmt.Sprintf("%s#store%d", vr.fn, i+1)
			pos := w.InstrPos(up)
			r.Check(a.sh.Of(up.Key).String() == vr.scheme, "C16.4", con+"(key)", pos, "key must be the scheme's hash of the stored slice; key "+a.sh.Of(up.Key).String())
			v := a.sh.Of(up.Value).String()
			r.Check(v == vr.val || v == "@slices.Clone(p2)", "C16.4", con+"(value)", pos, "value must be the hashed slice (or its clone); value "+v)
			r.Check(len(miss) > 0 && a.EveryPathTakes(up, miss), "C16.4", con+"(no-overwrite)", pos, "store must be on the miss edge of the lookup under the same hash")
			r.Check(len(okErr) > 0 && a.EveryPathTakes(up, okErr), "C16.4", con+"(hash-ok)", pos, "store must follow a successful hash computation")
		}
		if len(ups) == 0 {
			r.Fail("C16.4", vr.fn+"#store", w.Pos(fn.Pos()), "no map write found")
		}
		rets := returnShapes(a, 1)
		r.Check(containsPrefix(rets, vr.errT), "C16.4", vr.fn+"(exists)", w.Pos(fn.Pos()), "hit returns the AlreadyExist error; returns: "+strings.Join(rets, " | "))
	}

	// ---------- C16.5 Load*: miss → documented error; hit → looked-up value under the argument key
	type loadRule struct {
		fn, lookup, errT string
		valIdx, errIdx   int
	}
	for _, lr := range []loadRule{
		{"tmmemstore.ActionStore.LoadActions", "p0.ras[lit:tmmemstore.hr{H:p2,R:p3}]", "lit:tmconsensus.RoundUnknownError{WantHeight:p2,WantRound:p3}", 0, 1},
		{"tmmemstore.CommittedHeaderStore.LoadCommittedHeader", "p0.chs[p2]", "lit:tmconsensus.HeightUnknownError{Want:p2}", 0, 1},
		{"tmmemstore.ValidatorStore.LoadPubKeys", "p0.keys[p2]", "lit:tmstore.NoPubKeyHashError{Want:p2}", 0, 1},
		{"tmmemstore.ValidatorStore.LoadVotePowers", "p0.pows[p2]", "lit:tmstore.NoVotePowerHashError{Want:p2}", 0, 1},
	} {
		fn := w.Fn(lr.fn)
		if fn == nil {
			r.Fail("C16.5", lr.fn, "", "method not found")
			continue
		}
		a := w.AU(fn)
		hit, _ := a.IfEdges(lr.lookup+"#1", true, nil)
		for i, ret := range a.Returns() {
			con := fmt.Sprintf("%s#return%d", lr.fn, i+1)
			errS := a.sh.Of(ret.Results[lr.errIdx]).String()
			valS := a.sh.Of(ret.Results[lr.valIdx]).String()
			if errS == "nil" {
				r.Check(valS == lr.lookup+"#0" && len(hit) > 0 && a.EveryPathTakes(ret, hit), "C16.5", con, w.InstrPos(ret), "hit returns "+valS+" (want "+lr.lookup+"#0) on the found edge")
			} else {
				r.Check(errS == lr.errT, "C16.5", con, w.InstrPos(ret), "miss returns "+errS+" (want "+lr.errT+")")
			}
		}
	}
	// Set/Get wiring
	wiring := []struct {
		set, get string
		fields   []string
	}{
		{"tmmemstore.MirrorStore.SetNetworkHeightRound", "tmmemstore.MirrorStore.NetworkHeightRound", []string{"votingHeight", "votingRound", "committingHeight", "committingRound"}},
		{"tmmemstore.StateMachineStore.SetStateMachineHeightRound", "tmmemstore.StateMachineStore.StateMachineHeightRound", []string{"h", "r"}},
	}
	for _, wr := range wiring {
		set, get := w.Fn(wr.set), w.Fn(wr.get)
		if set == nil || get == nil {
			r.Fail("C16.5", wr.set, "", "set/get pair not found")
			continue
		}
		sa, ga := w.AU(set), w.A(get)
		// setter: field i <- param i+2
		got := map[string]string{}
		sa.Instrs(func(in ssa.Instruction) {
			if st, ok := in.(*ssa.Store); ok {
				if fa, ok := st.Addr.(*ssa.FieldAddr); ok && fa.X == set.Params[0] {
					got[fieldName(fa.X.Type(), fa.Field)] = sa.sh.Of(st.Val).String()
				}
			}
		})
		okSet := true
		for i, f := range wr.fields {
			if got[f] != fmt.Sprintf("p%d", i+2) {
				okSet = false
			}
		}
		r.Check(okSet, "C16.5", wr.set+"(wiring)", w.Pos(set.Pos()), fmt.Sprintf("each argument stored in its own field: %v", got))
		// getter: success return lists the fields in order; uninitialised → ErrStoreUninitialized
		for i, ret := range ga.Returns() {
			con := fmt.Sprintf("%s#return%d", wr.get, i+1)
			n := len(ret.Results)
			errS := ga.sh.Of(ret.Results[n-1]).String()
			if errS == "nil" {
				okGet := true
				var vals []string
				for k, f := range wr.fields {
					v := ga.sh.Of(ret.Results[k]).String()
					vals = append(vals, v)
					if v != "p0."+f {
						okGet = false
					}
				}
				r.Check(okGet, "C16.5", con, w.InstrPos(ret), "returns the stored fields in order: "+strings.Join(vals, ","))
			} else {
				r.Check(errS == "%tmstore.ErrStoreUninitialized", "C16.5", con, w.InstrPos(ret), "uninitialised store returns ErrStoreUninitialized: "+errS)
			}
		}
	}

	// ---------- C16.6 key derivation of the remaining writers; vote kinds kept apart
	if fn := w.Fn("tmmemstore.CommittedHeaderStore.SaveCommittedHeader"); fn != nil {
		a := w.AU(fn)
		for i, up := range mapUpdates(a, "p0.chs") {
			con := fmt.Sprintf("%s#store%d", FuncName(fn), i+1)
			r.Check(a.sh.Of(up.Key).String() == "p2.Header.Height" && a.sh.Of(up.Value).String() == "p2", "C16.6", con, w.InstrPos(up),
				"header stored under its own height: key "+a.sh.Of(up.Key).String()+" value "+a.sh.Of(up.Value).String())
		}
	}
	for _, kr := range []struct{ fn, own, other string }{
		{"tmmemstore.RoundStore.OverwriteRoundPrevoteProofs", "p0.prevotes", "p0.precommits"},
		{"tmmemstore.RoundStore.OverwriteRoundPrecommitProofs", "p0.precommits", "p0.prevotes"},
	} {
		fn := w.Fn(kr.fn)
		if fn == nil {
			r.Fail("C16.6", kr.fn, "", "method not found")
			continue
		}
		a := w.AU(fn)
		found := false
		a.Instrs(func(in ssa.Instruction) {
			up, ok := in.(*ssa.MapUpdate)
			if !ok {
				return
			}
			m := a.sh.Of(up.Map)
			if ContainsP(kr.other, m) {
				r.Fail("C16.6", kr.fn+"(kind)", w.InstrPos(up), "writes into the other vote kind's collection: "+m.String())
				return
			}
			if a.sh.Of(up.Value).String() == "p4" {
				found = true
				r.Check(ContainsP(kr.own+"[p2]", m) && a.sh.Of(up.Key).String() == "p3", "C16.6", kr.fn+"(wiring)", w.InstrPos(up),
					"collection stored at [height][round] of its own kind: map "+m.String()+" key "+a.sh.Of(up.Key).String())
			}
		})
		if !found {
			r.Fail("C16.6", kr.fn+"(wiring)", w.Pos(fn.Pos()), "the proofs argument is never stored")
		}
	}
	if fn := w.Fn("tmmemstore.RoundStore.LoadRoundState"); fn != nil {
		a := w.AU(fn)
		for i, ret := range a.Returns() {
			con := fmt.Sprintf("%s#return%d", FuncName(fn), i+1)
			pv, pc := a.sh.Of(ret.Results[1]), a.sh.Of(ret.Results[2])
			ok := !ContainsP("p0.precommits", pv) && !ContainsP("p0.prevotes", pc)
			if a.sh.Of(ret.Results[3]).String() == "nil" {
				ok = ok && ContainsP("p0.prevotes[p2]#0[p3]", pv) && ContainsP("p0.precommits[p2]#0[p3]", pc)
			}
			r.Check(ok, "C16.6", con, w.InstrPos(ret), "prevotes come from prevotes[height][round], precommits from precommits[height][round]: "+truncate(pv.String(), 100)+" / "+truncate(pc.String(), 100))
		}
	}
	storeMapDiscipline(r, "C16.6")
	r.Expect("C16.6", 15, "map updates in the in-memory stores")
	r.Expect("C16.2", 9, "action store guards")
	r.Expect("C16.5", 10, "load contracts")
	r.Expect("C16.6", 4, "wiring of remaining writers")
}

func mapUpdates(a *FnA, mapShape string) []*ssa.MapUpdate {
	var out []*ssa.MapUpdate
	a.Instrs(func(in ssa.Instruction) {
		if up, ok := in.(*ssa.MapUpdate); ok && a.sh.Of(up.Map).String() == mapShape {
			out = append(out, up)
		}
	})
	return out
}

func returnShapes(a *FnA, idx int) []string {
	m := map[string]bool{}
	returnShapesInto(a, idx, 0, m)
	return setKeys(m)
}

// returnShapesInto collects the shapes a function can return at result idx; a result that is the
// result of an unexported helper of the same package (a validator split off by a refactoring) is
// replaced by what that helper can return (depth <= 2).
func returnShapesInto(a *FnA, idx, depth int, m map[string]bool) {
	var addVal func(v ssa.Value)
	addVal = func(v ssa.Value) {
		if ph, ok := v.(*ssa.Phi); ok {
			for _, e := range ph.Edges {
				addVal(e)
			}
			return
		}
		if ld, ok := v.(*ssa.UnOp); ok && ld.Op == token.MUL {
			if rs := reachingStore(ld); rs != nil {
				addVal(rs)
				return
			}
		}
		var call *ssa.Call
		ridx := 0
		switch x := v.(type) {
		case *ssa.Call:
			call = x
		case *ssa.Extract:
			if c, ok := x.Tuple.(*ssa.Call); ok {
				call, ridx = c, x.Index
			}
		}
		if call != nil && depth < 2 {
			if cal := call.Call.StaticCallee(); cal != nil && cal.Blocks != nil && cal.Pkg != nil && a.fn.Pkg == cal.Pkg && !ast.IsExported(cal.Name()) {
				returnShapesInto(a.w.A(cal), ridx, depth+1, m)
				return
			}
		}
		s := a.sh.Of(v)
		if s.K == "phi" {
			for _, alt := range s.A {
				m[alt.String()] = true
			}
			return
		}
		m[s.String()] = true
	}
	for _, ret := range a.Returns() {
		if idx < len(ret.Results) {
			addVal(ret.Results[idx])
		}
	}
}

func containsPrefix(xs []string, p string) bool {
	for _, x := range xs {
		if strings.HasPrefix(x, p) {
			return true
		}
	}
	return false
}

// actionStoreRules: the in-memory action store's refusal and record-keeping
// contract (shared by C16.2 and C02.8).
func actionStoreRules(r *Run, rule string) {
	w := r.W
	// ---------- C16.2 ActionStore
	type actRule struct {
		fn       string
		sigField string // existing-action test
		keyChk   bool
		errType  string
	}
	for _, ar := range []actRule{
		{"tmmemstore.ActionStore.SaveProposedHeaderAction", "", false, "tmstore.DoubleActionError"},
		{"tmmemstore.ActionStore.SavePrevoteAction", "PrevoteSignature", true, "tmstore.DoubleActionError"},
		{"tmmemstore.ActionStore.SavePrecommitAction", "PrecommitSignature", true, "tmstore.DoubleActionError"},
	} {
		fn := w.Fn(ar.fn)
		if fn == nil {
			r.Fail(rule, ar.fn, "", "method not found")
			continue
		}
		a := w.AU(fn)
		ups := mapUpdates(a, "p0.ras")
		if len(ups) == 0 {
			r.Fail(rule, ar.fn+"#store", w.Pos(fn.Pos()), "no write to the action map found")
			continue
		}
		miss, _ := a.IfEdges("p0.ras[$k]#1", false, nil)
		var free []Edge
		if ar.sigField == "" {
			free, _ = a.IfEdges("($x.ProposedHeader.Header.Height == 0)", true, nil)
		} else {
			free, _ = a.IfEdges("($x."+ar.sigField+` == "")`, true, nil)
		}
		for i, up := range ups {
			con := fmt.Sprintf("%s#store%d", ar.fn, i+1)
			pos := w.InstrPos(up)
			r.Check(len(free) > 0 && a.EveryPathTakes(up, miss, free), rule, con+"(no-double)", pos,
				"the map write must be reachable only when the round has no entry or the existing entry has no such action")
			if ar.keyChk {
				eq, _ := a.IfEdges("@@gcrypto.PubKey.Equal($...)", true, nil)
				keyOK := a.IfEdgesAlt(Spec("($x.PubKey == nil)", true, nil), Spec("@@gcrypto.PubKey.Equal($...)", true, nil))
				r.Check((len(eq) > 0 || len(keyOK) > 0) && a.EveryPathTakes(up, miss, keyOK), rule, con+"(same-key)", pos,
					"the map write must be reachable only when no key is recorded or the recorded key equals the offered one")
			}
			// same key for lookup and update, derived from the argument's height/round
			key := a.sh.Of(up.Key).String()
			okKey := strings.Contains(key, "H:") && strings.Contains(key, "R:") && (strings.Contains(key, ".Height") && strings.Contains(key, ".Round"))
			lookupSame := false
			a.Instrs(func(in ssa.Instruction) {
				if l, ok := in.(*ssa.Lookup); ok && a.sh.Of(l.X).String() == "p0.ras" && a.sh.Of(l.Index).String() == key {
					lookupSame = true
				}
			})
			r.Check(okKey && lookupSame, rule, con+"(key)", pos, "entry is looked up and stored under the same (Height, Round) of the offered action: key "+key)
		}
		// the recorded entry carries the offered action in the fields of its own kind
		got := map[string]string{}
		a.Instrs(func(in ssa.Instruction) {
			if st, ok := in.(*ssa.Store); ok {
				if fa, ok := st.Addr.(*ssa.FieldAddr); ok {
					if al, ok := fa.X.(*ssa.Alloc); ok && TypeName(al.Type()) == "tmstore.RoundActions" {
						got[fieldName(fa.X.Type(), fa.Field)] = a.sh.Of(st.Val).String()
					}
				}
			}
		})
		var want map[string]string
		switch ar.sigField {
		case "":
			want = map[string]string{"Height": "p2.Header.Height", "Round": "p2.Round", "ProposedHeader": "p2"}
		case "PrevoteSignature":
			want = map[string]string{"Height": "p3.Height", "Round": "p3.Round", "PrevoteTarget": "p3.BlockHash", "PrevoteSignature": "p4", "PubKey": "p2"}
		case "PrecommitSignature":
			want = map[string]string{"Height": "p3.Height", "Round": "p3.Round", "PrecommitTarget": "p3.BlockHash", "PrecommitSignature": "p4", "PubKey": "p2"}
		}
		okW := len(got) == len(want)
		for k, v := range want {
			if got[k] != v {
				okW = false
			}
		}
		r.Check(okW, rule, ar.fn+"(record)", w.Pos(fn.Pos()), fmt.Sprintf("fields written to the round's record: %v (want %v)", got, want))
		// the record written back is the looked-up record of that round, updated in place:
		// other actions already recorded for the round must survive (a vote recorded before a
		// late proposal, a prevote when the precommit is saved, ...)
		for i, up := range ups {
			preserved := false
			if ld, ok := up.Value.(*ssa.UnOp); ok {
				if al, ok := ld.X.(*ssa.Alloc); ok {
					ai := a.sh.allocInfo(al)
					for _, wv := range ai.whole {
						if a.sh.Of(wv).String() == "p0.ras["+a.sh.Of(up.Key).String()+"]#0" {
							preserved = true
						}
					}
				}
			}
			r.Check(preserved, rule, fmt.Sprintf("%s#store%d(record-preserved)", ar.fn, i+1), w.InstrPos(up),
				"the value stored must be the round's existing record (the lookup result) with this action's fields assigned, so that actions already recorded for the round are kept")
		}
		// refusal error types
		rets := returnShapes(a, fn.Signature.Results().Len()-1)
		r.Check(containsPrefix(rets, "lit:"+ar.errType), rule, ar.fn+"(refusal)", w.Pos(fn.Pos()), "returns "+ar.errType+" on refusal; returns: "+strings.Join(rets, " | "))
		if ar.keyChk {
			r.Check(containsPrefix(rets, "lit:tmstore.PubKeyChangedError"), rule, ar.fn+"(key-refusal)", w.Pos(fn.Pos()), "returns PubKeyChangedError on key change")
		}
	}

}
