package main

import (
	"fmt"
	"sort"
	"strings"

	"golang.org/x/tools/go/ssa"
)

func init() {
	register(&PropMeta{
		ID: "C05", Title: "Only authentic votes enter views, stores and gossip",
		Explanation: "Every route from a network vote message to kernel state is enumerated from the SSA (the four mirror functions that send Add{,Future}{Prevote,Precommit}Request) and shown to pass, on every CFG path, the checks the property needs: validator-set hash equality with the looked-up view before any merge; proofs built over that view's public keys and over sign bytes of the handler's own vote kind for (message height, message round, block hash key); after every MergeSparse the AllValidSignatures flag (directly, through Combine, or through an and-accumulated flag) gates both the kernel request and every accepted/verified return; key ids are length- and range-checked inside both MergeSparse implementations; verify-before-set inside the proofs; on the kernel side only the add-vote functions and replay store into a view's proof maps, each kind into its own maps with its own recomputation and persistence; prevote and precommit siblings reference no symbol of the other kind and agree in their callee and result summaries.",
		NotDecided:  "which votes end up in views for particular message interleavings; cryptographic validity",
		Assumptions: []string{"CFG paths over-approximate executions", "and-accumulation idiom recognised structurally: phi over {true,false,<merge>.AllValidSignatures}"},
		Run:         runC05,
	})
}

type voteHandler struct {
	fn     *ssa.Function
	kind   string // Prevote / Precommit
	future bool
	send   SendSite
}

func findVoteHandlers(w *World) []voteHandler {
	var out []voteHandler
	for _, fn := range w.FuncsInPkg("tmengine/internal/tmmirror") {
		a := w.A(fn)
		for _, s := range a.Sends() {
			tn := TypeName(s.Val.Type())
			var vh *voteHandler
			switch tn {
			case "tmi.AddPrevoteRequest":
				vh = &voteHandler{fn, "Prevote", false, s}
			case "tmi.AddPrecommitRequest":
				vh = &voteHandler{fn, "Precommit", false, s}
			case "tmi.AddFuturePrevoteRequest":
				vh = &voteHandler{fn, "Prevote", true, s}
			case "tmi.AddFuturePrecommitRequest":
				vh = &voteHandler{fn, "Precommit", true, s}
			}
			if vh != nil {
				// the request may be sent from a helper split off from the handler: the handler is the
				// first *Proofs function up the helper's single-call-site chain
				vh.fn = w.OwnerIn(fn, func(n string) bool {
					base := n[strings.LastIndex(n, ".")+1:]
					return strings.HasSuffix(base, "Proofs") && (strings.HasPrefix(base, "Handle") || strings.HasPrefix(base, "handle"))
				})
				out = append(out, *vh)
			}
		}
	}
	sort.Slice(out, func(i, j int) bool { return FuncName(out[i].fn) < FuncName(out[j].fn) })
	return out
}

// allValidEdges returns the edges on which "all signatures merged by m were
// valid" is established: an If on m.AllValidSignatures, on
// Combine(.., m).AllValidSignatures, or on an and-accumulated flag.
func allValidEdges(a *FnA, m *Shape) []Edge {
	var edges []Edge
	ms := m.String()
	for _, b := range a.blocks() {
		if len(b.Instrs) == 0 {
			continue
		}
		ifi, ok := b.Instrs[len(b.Instrs)-1].(*ssa.If)
		if !ok || len(b.Succs) != 2 {
			continue
		}
		p := NormPred(a.sh.Of(ifi.Cond))
		if p.Op != "" {
			continue
		}
		c := p.L
		okc := false
		switch {
		case c.K == "fld" && c.S == "AllValidSignatures" && c.A[0].String() == ms:
			okc = true
		case c.K == "fld" && c.S == "AllValidSignatures":
			hasM, ok := carriesAllValid(c.A[0], ms)
			okc = hasM && ok
		case c.K == "phi":
			hasM, hasFalse, other := false, false, false
			for _, alt := range c.A {
				s := alt.String()
				switch {
				case s == ms+".AllValidSignatures":
					hasM = true
				case s == "false":
					hasFalse = true
				case s == "true" || s == "loop":
				default:
					other = true
				}
			}
			okc = hasM && hasFalse && !other
		}
		if !okc {
			continue
		}
		// edge where the flag is true
		succ := 0
		if p.Neg {
			succ = 1
		}
		edges = append(edges, Edge{b, succ})
	}
	return edges
}

// carriesAllValid: x is a merge-result value whose AllValidSignatures is the
// conjunction of flags including merge ms: ms itself, Combine(...) of such
// values, a literal result (initial value), or a phi of those.
func carriesAllValid(x *Shape, ms string) (hasM, ok bool) {
	switch {
	case x.String() == ms:
		return true, true
	case x.K == "call" && x.S == "gcrypto.SignatureProofMergeResult.Combine":
		ok = true
		for _, a := range x.A {
			h, o := carriesAllValid(a, ms)
			hasM = hasM || h
			ok = ok && o
		}
		return hasM, ok
	case x.K == "lit" && x.S == "gcrypto.SignatureProofMergeResult":
		return false, true
	case x.K == "phi":
		ok = true
		for _, a := range x.A {
			h, o := carriesAllValid(a, ms)
			hasM = hasM || h
			ok = ok && o
		}
		return hasM, ok
	case x.K == "unk" && x.S == "loop":
		return false, true
	}
	return false, false
}

func runC05(r *Run) {
	w := r.W
	r.Rule("C05.1", "GRD/PROV in each vote handler: validator-set hash equality with the looked-up view dominates merges and the kernel request; proofs are built over that view's keys and over sign bytes of the handler's kind for (p.Height, p.Round, block hash key)")
	r.Rule("C05.2", "merge-result discipline: after every MergeSparse/Merge of network signatures, the kernel request and every accepted return are reachable only through an edge establishing AllValidSignatures")
	r.Rule("C05.3", "key-id discipline: both MergeSparse implementations (and HasSparseKeyID / IsValid) length-check key ids before decoding them")
	r.Rule("C05.5", "kernel side: a view's proof maps are written only by the add-vote functions, replay and start-up; each kind writes its own maps, recomputes its own powers and persists its own collection")
	r.Rule("C05.6", "kind separation: prevote and precommit siblings reference no symbol of the other kind and agree in callee / result summaries modulo the kind")

	freshActionsChannel(r, "C05.7")
	hs := findVoteHandlers(w)
	if len(hs) != 4 {
		r.Fail("C05.1", "handlers", "", fmt.Sprintf("expected 4 vote handlers sending kernel add requests, found %d", len(hs)))
	}
	for _, h := range hs {
		a := w.AU(h.fn)
		name := FuncName(h.fn)
		other := "Precommit"
		if h.kind == "Precommit" {
			other = "Prevote"
		}
		// targets: kernel request + accepted/verified returns
		targets := []ssa.Instruction{h.send.Instr}
		accept := "%tmconsensus.HandleVoteProofsAccepted"
		if h.future {
			accept = "%tmconsensus.HandleVoteProofsFutureVerified"
		}
		targets = append(targets, a.ReturnsOf(0, accept)...)
		merges := a.CallsTo("gcrypto.CommonMessageSignatureProof.MergeSparse", "gcrypto.CommonMessageSignatureProof.Merge")
		if len(merges) == 0 {
			r.Fail("C05.2", name+"#merge", w.Pos(h.fn.Pos()), "handler forwards signatures without merging them through a verifying proof")
		}
		for i, m := range merges {
			con := fmt.Sprintf("%s#merge%d", name, i+1)
			e := allValidEdges(a, a.sh.Of(m.(ssa.Value)))
			ok := len(e) > 0
			for _, t := range targets {
				if !a.EveryPathFromTakes(m.Block(), t, e) {
					ok = false
				}
			}
			det := "the kernel request and the accepted result must not be reachable after a merge unless AllValidSignatures was seen true"
			if len(e) == 0 {
				det += " — the merge result's AllValidSignatures is never tested"
			}
			r.Check(ok, "C05.2", con, w.InstrPos(m), det)
		}
		if !h.future {
			// pub key hash equality with the looked-up view
			var viewBind *Shape
			pk := G{Name: "pubkey-hash", Pattern: "(p2.PubKeyHash == $v.RoundView.ValidatorSet.PubKeyHash)", Holds: true, Filter: func(b Bind) bool { viewBind = b["$v"]; return true }}
			for i, t := range append(append([]ssa.Instruction{}, merges...), targets...) {
				r.RequireGuards(a, "C05.1", fmt.Sprintf("%s#site%d", name, i+1), t, pk)
			}
			// keys and sign bytes of new proofs: what reaches the scheme's New through the helper, stated
			// in the handler's terms (the helper's parameters replaced by this call's arguments), so the
			// helper's signature does not matter
			helper := "tmmirror.Mirror.makeNew" + h.kind + "Proof"
			for i, c := range a.CallsTo(helper, "tmmirror.Mirror.makeNew"+other+"Proof") {
				con := fmt.Sprintf("%s#newproof%d", name, i+1)
				_, cn := calleeName(callCommon(c))
				v := ""
				if viewBind != nil {
					v = viewBind.String()
				}
				ca, conv := a.CalleeConv(c)
				ok := cn == helper && ca != nil
				det := ""
				if ok {
					news := ca.CallsTo("gcrypto.CommonMessageSignatureProofScheme.New")
					wrong := ca.CallsTo("tmconsensus." + other + "SignBytes")
					ok = len(news) == 1 && len(wrong) == 0
					if ok {
						msg := conv(ca.sh.Of(CallArg(news[0], 1)))
						keys := conv(ca.sh.Of(CallArg(news[0], 2))).String()
						kh := conv(ca.sh.Of(CallArg(news[0], 3))).String()
						_, okMsg := Match("@tmconsensus."+h.kind+"SignBytes(lit:tmconsensus.VoteTarget{Height:p2.Height,Round:p2.Round,BlockHash:rk($m)},p0.sigScheme)#0", msg)
						ok = okMsg && keys == v+".RoundView.ValidatorSet.PubKeys" && kh == v+".RoundView.ValidatorSet.PubKeyHash"
						det = fmt.Sprintf("message %s ; keys %s / %s", truncate(msg.String(), 160), keys, kh)
					}
				}
				r.Check(ok, "C05.1", con, w.InstrPos(c), "a new "+h.kind+" proof is built by "+cn+" over "+h.kind+" sign bytes of (message height, message round, block hash key) and the looked-up view's keys: "+det)
			}
			if hf := w.Fn(helper); hf != nil {
				r.Pass("C05.1", helper, w.Pos(hf.Pos()), "checked at its call sites in the handler's terms")
			} else {
				r.Fail("C05.1", helper, "", "helper not found")
			}
			// the request carries the message's height and round and the merged proofs
			req := a.sh.Of(h.send.Val)
			_, ok := Match("lit:tmi.Add"+h.kind+"Request{H:p2.Height,R:p2.Round,$...}", req)
			r.Check(ok, "C05.1", name+"#request", w.InstrPos(h.send.Instr), "kernel request is filed under the message's own height and round: "+truncate(req.String(), 160))
		} else {
			// future handlers: proofs over keys from the kernel's validator set or the store entry for the message's hash
			for i, c := range a.CallsTo("gcrypto.CommonMessageSignatureProofScheme.New") {
				con := fmt.Sprintf("%s#newproof%d", name, i+1)
				msg := a.sh.Of(CallArg(c, 1)).String()
				keys := a.sh.Of(CallArg(c, 2))
				alts := []*Shape{keys}
				if keys.K == "phi" {
					alts = keys.A
				}
				okK := true
				for _, alt := range alts {
					s := alt.String()
					// (a nil alternative is the value on a helper's failure return, which the caller does not use)
					if !(s == "nil" || s == "p3.VRV.RoundView.ValidatorSet.PubKeys" || strings.HasPrefix(s, "@@tmmirror.pubKeyLoader.LoadPubKeys(p0.vs,p1,p2.PubKeyHash)#0")) {
						okK = false
					}
				}
				okM := strings.HasPrefix(msg, "@tmconsensus."+h.kind+"SignBytes(lit:tmconsensus.VoteTarget{Height:p2.Height,Round:p2.Round,BlockHash:rk(p2.Proofs)}")
				r.Check(okK && okM, "C05.1", con, w.InstrPos(c), "future "+h.kind+" proof over "+truncate(msg, 120)+" with keys "+truncate(keys.String(), 160))
			}
			// when the kernel knows the round's validator set (a later round of the voting height) the
			// sender must not be able to choose the keys: the store is consulted for the hash named in
			// the message only when the kernel supplied no keys
			loads := a.CallsTo("tmmirror.pubKeyLoader.LoadPubKeys", "tmstore.ValidatorStore.LoadPubKeys")
			for i, c := range loads {
				r.RequireGuards(a, "C05.1", fmt.Sprintf("%s#stored-keys%d", name, i+1), c,
					G{Name: "kernel-has-no-keys", Pattern: "(@len(p3.VRV.RoundView.ValidatorSet.PubKeys) == 0)", Holds: true})
			}
			if len(loads) == 0 {
				r.Pass("C05.1", name+"#stored-keys", w.Pos(h.fn.Pos()), "keys are never taken from the store")
			}
			full := a.CallsTo("tmconsensus.SparseSignatureCollection.ToFull" + h.kind + "ProofMap")
			for i, c := range full {
				keys := a.sh.Of(CallArg(c, 3))
				alts := []*Shape{keys}
				if keys.K == "phi" {
					alts = keys.A
				}
				okK := true
				for _, alt := range alts {
					s := alt.String()
					// (a nil alternative is the value on a helper's failure return, which the caller does not use)
					if !(s == "nil" || s == "p3.VRV.RoundView.ValidatorSet.PubKeys" || strings.HasPrefix(s, "@@tmmirror.pubKeyLoader.LoadPubKeys(p0.vs,p1,p2.PubKeyHash)#0")) {
						okK = false
					}
				}
				r.Check(okK, "C05.1", fmt.Sprintf("%s#stored-votes-keys%d", name, i+1), w.InstrPos(c), "stored future votes are re-verified with the same key source: "+truncate(keys.String(), 160))
			}
			wrong := a.CallsTo("tmconsensus.SparseSignatureCollection.ToFull" + other + "ProofMap")
			r.Check(len(full) == 1 && len(wrong) == 0, "C05.1", name+"#stored", w.Pos(h.fn.Pos()), "stored votes are re-verified as "+h.kind+"s")
		}
	}
	r.Expect("C05.1", 16, "handler guards and proof construction")
	if cf := w.Fn("gcrypto.SignatureProofMergeResult.Combine"); cf == nil {
		r.Fail("C05.2", "Combine", "", "SignatureProofMergeResult.Combine not found")
	} else {
		ca := w.AU(cf)
		for _, ret := range ca.Returns() {
			v := ca.sh.Of(ret.Results[0])
			b, ok := Match("lit:gcrypto.SignatureProofMergeResult{AllValidSignatures:$av,$...}", v)
			okAnd := ok && (b["$av"].String() == "phi(false|p1.AllValidSignatures)" || b["$av"].String() == "phi(false|p0.AllValidSignatures)")
			// and the short-circuit is on the other operand
			r.Check(okAnd, "C05.2", "gcrypto.SignatureProofMergeResult.Combine(AllValid-is-and)", w.InstrPos(ret), "Combine must AND the AllValidSignatures flags: "+truncate(v.String(), 200))
		}
	}
	r.Expect("C05.2", 5, "merge sites on network paths")

	// ---------- C05.3
	var keyFns []*ssa.Function
	for _, fn := range append(w.FuncsInPkg("gordian/gcrypto"), w.FuncsInPkg("gcrypto/gblsminsig")...) {
		n := fn.Name()
		if n == "MergeSparse" || n == "HasSparseKeyID" || n == "IsValid" {
			keyFns = append(keyFns, fn)
		}
	}
	boundedReads(r, "C05.3", keyFns)
	r.Expect("C05.3", 6, "key id decoders in both schemes")

	verifyBeforeSet(r, "C05.4")

	// ---------- C05.5 kernel side
	tmiFns := w.FuncsInPkg("tmmirror/internal/tmi")
	allowed := map[string]map[string]bool{
		"PrevoteProofs":   {"tmi.Kernel.addPrevote": true},
		"PrecommitProofs": {"tmi.Kernel.addPrecommit": true, "tmi.Kernel.handleReplayedHeader": true},
	}
	ord := Ord{}
	for _, fn := range tmiFns {
		a := w.A(fn)
		a.Instrs(func(in ssa.Instruction) {
			up, ok := in.(*ssa.MapUpdate)
			if !ok {
				return
			}
			m := a.sh.Of(up.Map).String()
			for f, al := range allowed {
				if strings.HasSuffix(m, "."+f) {
					con := ord.Next(FuncName(fn) + "#" + f + "[]=")
					if writesCallerOwnedView(w, fn, up.Map) {
						r.Pass("C05.5", con, w.InstrPos(in), "fills the round view handed in by the caller (snapshot copy), not kernel state")
						continue
					}
					r.Check(al[FuncName(fn)], "C05.5", con, w.InstrPos(in), "write into a view's "+f+" map ("+truncate(m, 80)+")")
				}
			}
		})
	}
	for _, k := range []struct{ fn, kind, other string }{
		{"tmi.Kernel.addPrevote", "Prevote", "Precommit"},
		{"tmi.Kernel.addPrecommit", "Precommit", "Prevote"},
	} {
		fn := w.Fn(k.fn)
		if fn == nil {
			r.Fail("C05.5", k.fn, "", "function not found")
			continue
		}
		a := w.AU(fn)
		// the proof stored is the request's, under the request's block hash key, only when versions match
		stored := false
		a.Instrs(func(in ssa.Instruction) {
			up, ok := in.(*ssa.MapUpdate)
			if !ok || !strings.HasSuffix(a.sh.Of(up.Map).String(), "."+k.kind+"Proofs") {
				return
			}
			stored = true
			key := a.sh.Of(up.Key).String()
			val := a.sh.Of(up.Value).String()
			okv := key == "rk(p3."+k.kind+"Updates)" && val == "rv(p3."+k.kind+"Updates).Proof"
			e, _ := a.IfEdges("(rv(p3."+k.kind+"Updates).PrevVersion == $vrv."+k.kind+"BlockVersions[rk(p3."+k.kind+"Updates)])", true, nil)
			r.Check(okv && len(e) > 0 && a.EveryPathTakes(in, e), "C05.5", k.fn+"(stored-proof)", w.InstrPos(in), "stores the request's proof for its own block hash key, only on version match: "+key+" <- "+val)
		})
		if !stored {
			r.Fail("C05.5", k.fn+"(stored-proof)", w.Pos(fn.Pos()), "no proof is stored")
		}
		setP := a.CallsTo("tmconsensus.VoteSummary.Set" + k.kind + "Powers")
		wrongP := a.CallsTo("tmconsensus.VoteSummary.Set" + k.other + "Powers")
		ow := a.CallsTo("tmstore.RoundStore.OverwriteRound" + k.kind + "Proofs")
		wrongOw := a.CallsTo("tmstore.RoundStore.OverwriteRound" + k.other + "Proofs")
		ok := len(setP) == 1 && len(wrongP) == 0 && len(ow) == 1 && len(wrongOw) == 0
		det := ""
		if ok {
			sp := a.sh.Of(setP[0].(ssa.Value)).String()
			os := a.sh.Of(ow[0].(ssa.Value)).String()
			ok = strings.Contains(sp, ".RoundView.ValidatorSet.Validators,") && strings.Contains(sp, "."+k.kind+"Proofs)") &&
				strings.Contains(os, "p3.H,p3.R,@tmi.mapToSparseSignatureCollection(") && strings.Contains(os, "."+k.kind+"Proofs))")
			det = truncate(sp, 160) + " ; " + truncate(os, 200)
		}
		r.Check(ok, "C05.5", k.fn+"(bookkeeping)", w.Pos(fn.Pos()), "recomputes "+k.kind+" powers over the view's validators and persists the "+k.kind+" collection under the request's height/round: "+det)
	}
	r.Expect("C05.5", 6, "kernel-side proof writes")

	// ---------- C05.6 kind separation
	pairs := [][2]string{
		{"tmmirror.Mirror.HandlePrevoteProofs", "tmmirror.Mirror.handlePrecommitProofs"},
		{"tmmirror.Mirror.handleFuturePrevoteProofs", "tmmirror.Mirror.handleFuturePrecommitProofs"},
		{"tmmirror.Mirror.makeNewPrevoteProof", "tmmirror.Mirror.makeNewPrecommitProof"},
		{"tmi.Kernel.addPrevote", "tmi.Kernel.addPrecommit"},
		{"tmi.Kernel.addFuturePrevote", "tmi.Kernel.addFuturePrecommit"},
		{"tmconsensus.VoteSummary.SetPrevotePowers", "tmconsensus.VoteSummary.SetPrecommitPowers"},
		{"tmconsensus.SparseSignatureCollection.ToFullPrevoteProofMap", "tmconsensus.SparseSignatureCollection.ToFullPrecommitProofMap"},
		{"tmmemstore.RoundStore.OverwriteRoundPrevoteProofs", "tmmemstore.RoundStore.OverwriteRoundPrecommitProofs"},
		{"tmconsensus.PrevoteSignBytes", "tmconsensus.PrecommitSignBytes"},
	}
	for _, pr := range pairs {
		f1, f2 := w.Fn(pr[0]), w.Fn(pr[1])
		if f1 == nil || f2 == nil {
			r.Fail("C05.6", pr[0]+"~"+pr[1], "", "sibling not found")
			continue
		}
		s1, s2 := kindSummary(w, f1), kindSummary(w, f2)
		// no symbol of the other kind
		var cross1, cross2 []string
		for _, x := range s1.symbols {
			if strings.Contains(x, "Precommit") || strings.Contains(x, "precommit") {
				cross1 = append(cross1, x)
			}
		}
		for _, x := range s2.symbols {
			if strings.Contains(x, "Prevote") || strings.Contains(x, "prevote") {
				cross2 = append(cross2, x)
			}
		}
		// addPrecommit legitimately ends with the precommit view shift checks; nothing legit crosses kinds
		r.Check(len(cross1) == 0, "C05.6", pr[0]+"(no-precommit-symbols)", w.Pos(f1.Pos()), "prevote-side function references precommit symbols: "+strings.Join(cross1, ", "))
		r.Check(len(cross2) == 0, "C05.6", pr[1]+"(no-prevote-symbols)", w.Pos(f2.Pos()), "precommit-side function references prevote symbols: "+strings.Join(cross2, ", "))
		n1, n2 := normKind(s1.results), normKind(s2.results)
		r.Check(n1 == n2, "C05.6", pr[0]+"~"+pr[1]+"(results)", w.Pos(f1.Pos()), "siblings return the same result constants: "+n1+" vs "+n2)
	}
	r.Expect("C05.6", 20, "sibling pairs")
	// replayed commit certificates are votes too: whose keys verify them is C01.4e
	r.Rule("C05.10", "sign bytes kept by a signature proof are not aliased to a reused buffer (a proof filed under one block hash must not verify signatures made for another)")
	bufferAliasing(r, "C05.10")
	r.Rule("C05.9", "a commit proof the node stores keeps verifying for the height it is filed under: the proof saved with a committed header is a private copy, not a map the kernel's recycled views clear and refill for later heights")
	storedCommitProofIsPrivate(r, "C05.9")
	r.Borrow(runC01, "C01", "C01.4e", "C05.8", "signatures of a replayed commit are verified under the voting view's validator keys, not keys carried by the replayed header")
}

type kindSum struct {
	symbols []string
	results []string
}

func kindSummary(w *World, fn *ssa.Function) kindSum {
	syms := map[string]bool{}
	var visit func(f *ssa.Function)
	visit = func(f *ssa.Function) {
		for _, b := range f.Blocks {
			for _, in := range b.Instrs {
				if c := callCommon(in); c != nil {
					_, n := calleeName(c)
					if n != "" {
						syms[n] = true
					}
				}
				switch x := in.(type) {
				case *ssa.FieldAddr:
					syms[TypeName(x.X.Type())+"."+fieldName(x.X.Type(), x.Field)] = true
				case *ssa.Field:
					syms[TypeName(x.X.Type())+"."+fieldName(x.X.Type(), x.Field)] = true
				case *ssa.MakeClosure:
					visit(x.Fn.(*ssa.Function))
				}
			}
		}
	}
	visit(fn)
	var ks kindSum
	self := FuncName(fn)
	for s := range syms {
		if s == self {
			continue
		}
		if strings.Contains(strings.ToLower(s), "prevote") || strings.Contains(strings.ToLower(s), "precommit") {
			// view-shift checks after an accepted precommit are precommit-kind and fine
			ks.symbols = append(ks.symbols, s)
		}
	}
	sort.Strings(ks.symbols)
	if fn.Signature.Results().Len() > 0 {
		cs := w.ResultConsts(fn, 0)
		ks.results = cs.Sorted()
	}
	return ks
}

func normKind(xs []string) string {
	var out []string
	for _, x := range xs {
		x = strings.ReplaceAll(x, "Precommit", "VOTE")
		x = strings.ReplaceAll(x, "Prevote", "VOTE")
		out = append(out, x)
	}
	sort.Strings(out)
	return strings.Join(out, ",")
}
