package main

import (
	"fmt"
	"go/constant"
	"go/token"
	"go/types"
	"regexp"
	"sort"
	"strings"

	"golang.org/x/tools/go/ssa"
)

func init() {
	register(&PropMeta{
		ID: "C15", Title: "Block hashes bind all header fields; sign bytes are domain separated",
		Explanation: "Collision resistance is trusted (BLAKE2b). Decided on the shipped SimpleHashScheme / SimpleSignatureScheme: (1) coverage — Block never reads Header.Hash and every other leaf field of the header (through the previous commit proof's round, key hash, every block-hash key and every signature's key id and bytes, the four validator hashes, data id, app state hash, both annotations) flows into the data written to the hasher; (2) iteration-order independence — nothing is written to the hasher or its staging buffer inside a loop over a map, and every slice filled inside such a loop is sorted before it is read; (3) key provenance — a field-sensitive taint analysis shows that no key used to index a block-hash-keyed map (commit proofs, sparse proofs, view proof maps, block power maps) derives from a formatting call or a non-empty literal (the defect that left the commit-proof signatures out of the hash); (4) format injectivity — each verb of the constant format strings is followed by a delimiter outside the verb's alphabet and labels are pairwise distinct; optional sections carry their own label under a nil test; (5) domain separation — the sets of possible leading lines of the proposal, prevote and precommit sign contents (computed through helper calls with constant arguments substituted) are pairwise disjoint and prefix-free, nil variants are chosen under BlockHash == \"\" and every field of the vote target is written.",
		NotDecided:  "collision resistance; injectivity of %x over variable-length fields beyond the delimiter check",
		Assumptions: []string{"fmt verb semantics (%x lower-case hex, %d decimal)"},
		Run:         runC15,
	})
}

// ---- field-sensitive formatting taint ----

type taint struct {
	scalar bool
	fields map[string]bool // for struct values / elements: tainted field names
}

func (t *taint) merge(o *taint) bool {
	if o == nil {
		return false
	}
	ch := false
	if o.scalar && !t.scalar {
		t.scalar = true
		ch = true
	}
	for f := range o.fields {
		if !t.fields[f] {
			if t.fields == nil {
				t.fields = map[string]bool{}
			}
			t.fields[f] = true
			ch = true
		}
	}
	return ch
}

func (t *taint) any() bool { return t != nil && (t.scalar || len(t.fields) > 0) }

// formatTaint computes, for every SSA value of fn, whether it derives from a
// formatting call (fmt.Sprint*, hex encoding, strconv) or a non-empty string literal.
func formatTaint(fn *ssa.Function) map[ssa.Value]*taint {
	tv := map[ssa.Value]*taint{}
	get := func(v ssa.Value) *taint {
		if c, ok := v.(*ssa.Const); ok {
			if c.Value != nil && c.Value.Kind() == constant.String && constant.StringVal(c.Value) != "" {
				return &taint{scalar: true}
			}
			return nil
		}
		return tv[v]
	}
	set := func(v ssa.Value, t *taint) bool {
		if t == nil || !t.any() {
			return false
		}
		cur := tv[v]
		if cur == nil {
			cur = &taint{}
			tv[v] = cur
		}
		return cur.merge(t)
	}
	isFormatter := func(c *ssa.CallCommon) bool {
		_, n := calleeName(c)
		switch n {
		case "fmt.Sprintf", "fmt.Sprint", "fmt.Sprintln", "fmt.Appendf", "hex.EncodeToString", "hex.AppendEncode", "strconv.Itoa", "strconv.FormatUint", "strconv.FormatInt", "strconv.Quote", "base64.Encoding.EncodeToString":
			return true
		}
		return false
	}
	for changed := true; changed; {
		changed = false
		for _, b := range fn.Blocks {
			for _, in := range b.Instrs {
				switch x := in.(type) {
				case *ssa.Call:
					if isFormatter(&x.Call) {
						if set(x, &taint{scalar: true}) {
							changed = true
						}
						continue
					}
					if bi, ok := x.Call.Value.(*ssa.Builtin); ok && bi.Name() == "append" {
						for _, a := range x.Call.Args {
							if set(x, get(a)) {
								changed = true
							}
						}
					}
				case *ssa.Phi:
					for _, e := range x.Edges {
						if set(x, get(e)) {
							changed = true
						}
					}
				case *ssa.Convert:
					if set(x, get(x.X)) {
						changed = true
					}
				case *ssa.ChangeType:
					if set(x, get(x.X)) {
						changed = true
					}
				case *ssa.MakeInterface:
					if set(x, get(x.X)) {
						changed = true
					}
				case *ssa.Slice:
					if set(x, get(x.X)) {
						changed = true
					}
				case *ssa.Store:
					t := get(x.Val)
					switch ad := x.Addr.(type) {
					case *ssa.Alloc:
						if set(ad, t) {
							changed = true
						}
					case *ssa.FieldAddr:
						// field of a struct local/element: record per field on the base
						if t.any() {
							ft := &taint{fields: map[string]bool{fieldName(ad.X.Type(), ad.Field): true}}
							if set(ad.X, ft) {
								changed = true
							}
						}
					case *ssa.IndexAddr:
						if set(ad.X, t) {
							changed = true
						}
					}
				case *ssa.UnOp:
					if x.Op == token.MUL {
						switch ad := x.X.(type) {
						case *ssa.Alloc:
							if set(x, get(ad)) {
								changed = true
							}
						case *ssa.IndexAddr:
							if set(x, get(ad.X)) {
								changed = true
							}
						case *ssa.FieldAddr:
							if bt := get(ad.X); bt != nil && bt.fields[fieldName(ad.X.Type(), ad.Field)] {
								if set(x, &taint{scalar: true}) {
									changed = true
								}
							}
						}
					}
				case *ssa.IndexAddr:
					if set(x, get(x.X)) {
						changed = true
					}
				case *ssa.Index:
					if set(x, get(x.X)) {
						changed = true
					}
				case *ssa.Field:
					if bt := get(x.X); bt != nil && bt.fields[fieldName(x.X.Type(), x.Field)] {
						if set(x, &taint{scalar: true}) {
							changed = true
						}
					}
				case *ssa.Extract:
					// range value over a tainted slice
					if n, ok := x.Tuple.(*ssa.Next); ok {
						if rg, ok := n.Iter.(*ssa.Range); ok && x.Index == 2 {
							if set(x, get(rg.X)) {
								changed = true
							}
						}
					}
				}
			}
		}
	}
	return tv
}

func isHashKeyedMap(t types.Type) bool {
	m, ok := t.Underlying().(*types.Map)
	if !ok {
		return false
	}
	if b, ok := m.Key().Underlying().(*types.Basic); !ok || b.Kind() != types.String {
		return false
	}
	el := TypeName(m.Elem())
	switch {
	case strings.Contains(el, "SparseSignature"), strings.Contains(el, "CommonMessageSignatureProof"), el == "uint64", el == "uint32", strings.Contains(el, "VoteUpdate"), strings.Contains(el, "bitset.BitSet"):
		return true
	}
	return false
}

var fmtVerb = regexp.MustCompile(`%[-+# 0]*[0-9]*(\.[0-9]+)?[a-zA-Z]`)

func runC15(r *Run) {
	w := r.W
	r.Rule("C15.1", "coverage: SimpleHashScheme.Block never reads Header.Hash; every other leaf field of the header flows into what is written to the hasher")
	r.Rule("C15.2", "iteration-order independence: no write to the hasher or its buffer inside a loop over a map; slices filled in such a loop are sorted before being read")
	r.Rule("C15.3", "key provenance: no key indexing a block-hash-keyed map derives from a formatting call or a non-empty literal (field-sensitive taint)")
	r.Rule("C15.4", "format injectivity: every verb is followed by a delimiter outside its alphabet; labels are pairwise distinct; optional sections are labelled and nil-guarded")
	r.Rule("C15.5", "domain separation: possible leading lines of proposal / prevote / precommit sign contents are pairwise disjoint and prefix-free; nil variants under BlockHash == \"\"; all vote target fields written")

	blk := w.Fn("tmconsensustest.SimpleHashScheme.Block")
	if blk == nil {
		r.Fail("C15.1", "anchor", "", "tmconsensustest.SimpleHashScheme.Block not found")
		return
	}
	a := w.AU(blk)
	// ---- C15.1
	readsHash := false
	a.Instrs(func(in ssa.Instruction) {
		switch x := in.(type) {
		case *ssa.FieldAddr:
			if x.X == blk.Params[1] && fieldName(x.X.Type(), x.Field) == "Hash" {
				readsHash = true
			}
		case *ssa.Field:
			if x.X == blk.Params[1] && fieldName(x.X.Type(), x.Field) == "Hash" {
				readsHash = true
			}
		}
	})
	// the header is a by-value parameter: ssa spills it to a local; accept both
	paths := map[string]bool{}
	a.Instrs(func(in ssa.Instruction) {
		c := callCommon(in)
		if c == nil {
			return
		}
		_, n := calleeName(c)
		sink := n == "fmt.Fprintf" || n == "fmt.Sprintf" || n == "fmt.Appendf" || strings.HasPrefix(n, "bytes.Buffer.Write") || strings.HasSuffix(n, ".Write") || n == "append"
		if !sink {
			return
		}
		for _, arg := range c.Args {
			for p := range flowPaths(a, arg, 0) {
				paths[p] = true
			}
		}
	})
	// range keys over the proofs map count as reading Proofs keys
	a.Instrs(func(in ssa.Instruction) {
		if rg, ok := in.(*ssa.Range); ok {
			for p := range flowPaths(a, rg.X, 0) {
				paths[p+"[key]"] = true
			}
		}
	})
	hp := "p1"
	for p := range paths {
		if strings.HasSuffix(p, ".Hash") && strings.Count(p, ".") == 1 {
			readsHash = true
		}
	}
	r.Check(!readsHash, "C15.1", "Block(ignores-stored-hash)", w.Pos(blk.Pos()), "the stored Header.Hash must not influence the computed hash")
	need := []string{"PrevBlockHash", "Height", "PrevCommitProof.Round", "PrevCommitProof.PubKeyHash", "PrevCommitProof.Proofs[key]",
		"ValidatorSet.PubKeyHash", "ValidatorSet.VotePowerHash", "NextValidatorSet.PubKeyHash", "NextValidatorSet.VotePowerHash",
		"DataID", "PrevAppStateHash", "Annotations.User", "Annotations.Driver"}
	for _, f := range need {
		ok := paths[hp+"."+f]
		if !ok {
			for p := range paths {
				if strings.HasPrefix(p, hp+"."+f+".") {
					ok = true
				}
			}
		}
		r.Check(ok, "C15.1", "Block(covers:"+f+")", w.Pos(blk.Pos()), "header field must flow into the hashed bytes")
	}
	// signatures: KeyID and Sig of the elements of Proofs[...] reach a formatting sink
	sigOK := map[string]bool{}
	a.Instrs(func(in ssa.Instruction) {
		c := callCommon(in)
		if c == nil {
			return
		}
		for _, arg := range c.Args {
			s := a.sh.Of(arg).String()
			for _, f := range []string{"KeyID", "Sig"} {
				if strings.Contains(s, "PrevCommitProof.Proofs[") && strings.Contains(s, "]."+f) {
					sigOK[f] = true
				}
			}
		}
	})
	r.Check(sigOK["KeyID"] && sigOK["Sig"], "C15.1", "Block(covers:PrevCommitProof.Proofs[*].signatures)", w.Pos(blk.Pos()), "key id and signature bytes of every previous-commit signature must be written")

	// ---- C15.2
	hashFns := []*ssa.Function{blk}
	for _, n := range []string{"tmconsensustest.SimpleHashScheme.PubKeys", "tmconsensustest.SimpleHashScheme.VotePowers"} {
		if f := w.Fn(n); f != nil {
			hashFns = append(hashFns, f)
		}
	}
	for _, fn := range hashFns {
		fa := w.A(fn)
		bad := 0
		var filled []ssa.Instruction
		fa.Instrs(func(in ssa.Instruction) {
			c := callCommon(in)
			if c == nil || !inMapRangeLoop(in) {
				return
			}
			_, n := calleeName(c)
			if n == "fmt.Fprintf" || strings.HasPrefix(n, "bytes.Buffer.Write") || strings.HasSuffix(n, "Hash.Write") || strings.HasSuffix(n, ".Write") {
				bad++
				r.Fail("C15.2", fmt.Sprintf("%s#write-in-map-loop%d", FuncName(fn), bad), w.InstrPos(in), "bytes are written in map iteration order")
			}
			if n == "append" {
				filled = append(filled, in)
			}
		})
		if bad == 0 {
			r.Pass("C15.2", FuncName(fn)+"(no-write-in-map-loop)", w.Pos(fn.Pos()), "no hasher/buffer write inside a loop over a map")
		}
		for i, ap := range filled {
			// a sort call on the same slice must follow and dominate later indexed reads
			sorted := false
			fa.Instrs(func(in ssa.Instruction) {
				c := callCommon(in)
				if c == nil {
					return
				}
				_, n := calleeName(c)
				if (strings.HasPrefix(n, "sort.") || strings.HasPrefix(n, "slices.Sort")) && ReachesAfter(ap, in) && len(c.Args) > 0 &&
					sameSliceVar(callCommon(ap).Args[0], c.Args[0]) {
					sorted = true
				}
			})
			r.Check(sorted, "C15.2", fmt.Sprintf("%s#collected%d(sorted)", FuncName(fn), i+1), w.InstrPos(ap), "a slice filled while ranging over a map must be sorted before it is consumed")
		}
		// one sink: when the bytes are assembled in a buffer that is flushed into the hasher, nothing is
		// written to the hasher directly as well (the direct bytes would arrive before the buffered
		// ones: elements lose their delimiters and different inputs hash alike)
		var flushes, direct []ssa.Instruction
		fa.Instrs(func(in ssa.Instruction) {
			c := callCommon(in)
			if c == nil {
				return
			}
			_, n := calleeName(c)
			isHasher := func(v ssa.Value) bool { return strings.HasPrefix(fa.sh.Of(v).String(), "@blake2b.New(") }
			switch {
			case strings.HasSuffix(n, "Hash.Write") || n == "io.Writer.Write":
				if c.IsInvoke() && isHasher(c.Value) {
					if len(c.Args) == 1 && strings.Contains(fa.sh.Of(c.Args[0]).String(), "@bytes.Buffer.Bytes(") {
						flushes = append(flushes, in)
					} else {
						direct = append(direct, in)
					}
				}
			case n == "fmt.Fprintf" || n == "fmt.Fprint" || n == "fmt.Fprintln" || n == "io.WriteString":
				if len(c.Args) > 0 && isHasher(c.Args[0]) {
					direct = append(direct, in)
				}
			}
		})
		if len(flushes) > 0 {
			for i, d := range direct {
				r.Fail("C15.4", fmt.Sprintf("%s#direct-write-beside-buffer%d", FuncName(fn), i+1), w.InstrPos(d), "bytes are written to the hasher directly although the rest is assembled in a buffer flushed later: the order of the hashed bytes is not the order of the fields")
			}
			if len(direct) == 0 {
				r.Pass("C15.4", FuncName(fn)+"(one-sink)", w.Pos(fn.Pos()), "everything hashed goes through the one buffer")
			}
		}
		// a comparator handed to a sort in a hash function is a consistent order: each comparison it
		// makes relates the SAME component of its two elements (comparing a.x with b.y is not an
		// ordering; the sorted result, and so the hash, would depend on the input order)
		nc := 0
		fa.Instrs(func(in ssa.Instruction) {
			c := callCommon(in)
			if c == nil {
				return
			}
			_, n := calleeName(c)
			if !(strings.HasPrefix(n, "sort.Slice") || strings.HasPrefix(n, "slices.SortFunc") || strings.HasPrefix(n, "slices.SortStableFunc") || strings.HasPrefix(n, "sort.SliceStable")) {
				return
			}
			for _, arg := range c.Args {
				cf := funcValueOf(arg)
				if cf == nil {
					continue
				}
				ca := w.A(cf)
				norm := func(s *Shape) string {
					return regexp.MustCompile(`\bp[01]\b`).ReplaceAllString(s.String(), "_")
				}
				usesElem := func(s *Shape) bool { return regexp.MustCompile(`\bp[01]\b`).MatchString(s.String()) }
				ca.Instrs(func(x ssa.Instruction) {
					var l, rr *Shape
					switch y := x.(type) {
					case *ssa.BinOp:
						switch y.Op {
						case token.LSS, token.GTR, token.LEQ, token.GEQ, token.EQL, token.NEQ:
							l, rr = ca.sh.Of(y.X), ca.sh.Of(y.Y)
						}
					case *ssa.Call:
						if _, cn := calleeName(&y.Call); (cn == "bytes.Compare" || cn == "strings.Compare" || cn == "cmp.Compare" || cn == "bytes.Equal") && len(y.Call.Args) == 2 {
							l, rr = ca.sh.Of(y.Call.Args[0]), ca.sh.Of(y.Call.Args[1])
						}
					}
					if l == nil || !usesElem(l) || !usesElem(rr) {
						return
					}
					nc++
					r.Check(norm(l) == norm(rr), "C15.2", fmt.Sprintf("%s#comparator%d", FuncName(fn), nc), w.InstrPos(x), "sort comparator relates "+truncate(l.String(), 80)+" with "+truncate(rr.String(), 80)+": both sides must be the same component of the two elements")
				})
			}
		})
	}

	// ---- C15.3 key provenance, over production code and the shipped schemes
	scope := append(w.ProdFuncs(), w.FuncsInPkg("tmconsensus/tmconsensustest")...)
	nKeys, nBad := 0, 0
	for _, fn := range scope {
		var tv map[ssa.Value]*taint
		fa := w.A(fn)
		ord := Ord{}
		fa.Instrs(func(in ssa.Instruction) {
			var m, key ssa.Value
			switch x := in.(type) {
			case *ssa.Lookup:
				m, key = x.X, x.Index
			case *ssa.MapUpdate:
				m, key = x.Map, x.Key
			default:
				return
			}
			if !isHashKeyedMap(m.Type()) {
				return
			}
			// test fixtures legitimately use literal hashes; only production packages and the two shipped schemes are in scope
			if strings.HasSuffix(pkgPathOf(fn), "tmconsensustest") && !strings.HasPrefix(FuncName(fn), "tmconsensustest.SimpleHashScheme") && !strings.HasPrefix(FuncName(fn), "tmconsensustest.SimpleSignatureScheme") {
				return
			}
			nKeys++
			if tv == nil {
				tv = formatTaint(fn)
			}
			var t *taint
			if c, ok := key.(*ssa.Const); ok {
				if c.Value != nil && c.Value.Kind() == constant.String && constant.StringVal(c.Value) != "" {
					t = &taint{scalar: true}
				}
			} else {
				t = tv[key]
			}
			if t != nil && t.scalar {
				nBad++
				r.Fail("C15.3", ord.Next(FuncName(fn)+"#formatted-key"), w.InstrPos(in), "block-hash-keyed map "+truncate(fa.sh.Of(m).String(), 80)+" is indexed with a formatted / literal string: "+truncate(fa.sh.Of(key).String(), 120))
			}
		})
	}
	r.Check(nKeys >= 40, "C15.3", "census", "", fmt.Sprintf("%d index expressions on block-hash-keyed maps analysed, %d with formatted keys", nKeys, nBad))
	// canary: the taint analysis must recognise the defect shape on a miniature
	r.Check(taintCanary(), "C15.3", "canary", "", "self-check: a key built with Sprintf and carried through a slice of strings / a struct field is recognised as formatted, a raw key carried alongside is not")

	// ---- C15.4 format strings of the hash scheme and signature scheme
	fmtFns := append([]*ssa.Function{}, hashFns...)
	for _, fn := range w.FuncsInPkg("tmconsensus/tmconsensustest") {
		if strings.HasPrefix(FuncName(fn), "tmconsensustest.SimpleSignatureScheme.") || FuncName(fn) == "tmconsensustest.writeVoteSigningContent" {
			fmtFns = append(fmtFns, fn)
		}
	}
	for _, fn := range fmtFns {
		fa := w.A(fn)
		ord := Ord{}
		labels := map[string]int{}
		fa.Instrs(func(in ssa.Instruction) {
			c := callCommon(in)
			if c == nil {
				return
			}
			_, n := calleeName(c)
			if n != "fmt.Fprintf" && n != "fmt.Sprintf" && n != "fmt.Appendf" {
				return
			}
			var fstr string
			for _, arg := range c.Args {
				if k, ok := arg.(*ssa.Const); ok && k.Value != nil && k.Value.Kind() == constant.String {
					fstr = constant.StringVal(k.Value)
					break
				}
			}
			if fstr == "" {
				return
			}
			con := ord.Next(FuncName(fn) + "#format")
			ok := true
			var why []string
			locs := fmtVerb.FindAllStringIndex(fstr, -1)
			for _, loc := range locs {
				verb := fstr[loc[0]:loc[1]]
				after := ""
				if loc[1] < len(fstr) {
					after = fstr[loc[1] : loc[1]+1]
				}
				switch {
				case loc[1] == len(fstr):
					// last verb of a format whose output is embedded by the caller with its own delimiter
					if strings.Contains(fstr, "\n") {
						ok = false
						why = append(why, verb+" ends the format without a terminator")
					}
				case strings.ContainsAny(after, "0123456789abcdefABCDEF") && (strings.HasSuffix(verb, "x") || strings.HasSuffix(verb, "d")):
					ok = false
					why = append(why, verb+" is followed by '"+after+"', which belongs to its own alphabet")
				case strings.HasPrefix(after, "%"):
					ok = false
					why = append(why, verb+" is directly followed by another verb")
				}
			}
			perFormat := map[string]int{}
			for _, line := range strings.Split(fstr, "\n") {
				if i := strings.IndexAny(line, "%"); i > 0 {
					perFormat[strings.TrimSpace(line[:i])]++
				}
			}
			for l, n := range perFormat {
				if n > 1 {
					labels[l] = n
				}
			}
			r.Check(ok, "C15.4", con, w.InstrPos(in), fmt.Sprintf("format %q: %s", truncate(fstr, 60), strings.Join(why, "; ")))
		})
		var dup []string
		for l, n := range labels {
			if n > 1 && l != "" {
				dup = append(dup, l)
			}
		}
		sort.Strings(dup)
		r.Check(len(dup) == 0, "C15.4", FuncName(fn)+"(labels)", w.Pos(fn.Pos()), "labels must be pairwise distinct; duplicated: "+strings.Join(dup, ","))
	}
	// optional annotation sections are written only when non-nil, with their own label
	for _, g := range []struct{ fn, field string }{{"tmconsensustest.SimpleHashScheme.Block", "Annotations.User"}, {"tmconsensustest.SimpleHashScheme.Block", "Annotations.Driver"}} {
		fn := w.Fn(g.fn)
		fa := w.AU(fn)
		found := false
		fa.Instrs(func(in ssa.Instruction) {
			c := callCommon(in)
			if c == nil {
				return
			}
			if _, n := calleeName(c); n != "fmt.Fprintf" {
				return
			}
			s := fa.sh.callShape(c).String()
			if !strings.Contains(s, "p1."+g.field) || strings.Contains(s, "PrevBlockHash") {
				return
			}
			found = true
			e, _ := fa.IfEdges("(p1."+g.field+" == nil)", false, nil)
			r.Check(len(e) > 0 && fa.EveryPathTakes(in, e), "C15.4", g.fn+"(optional:"+g.field+")", w.InstrPos(in), "optional section written only when the field is non-nil, so nil and empty hash differently")
		})
		if !found {
			r.Fail("C15.4", g.fn+"(optional:"+g.field+")", w.Pos(fn.Pos()), "annotation is not hashed in its own labelled section")
		}
	}

	r.Rule("C15.6", "the sign bytes are the whole content the scheme wrote: the tmconsensus helpers return the entire buffer, or, where they cut it at the scheme's reported count, every write of the shipped scheme is added into that count")
	signBytesAreWholeContent(r, "C15.6")
	// ---- C15.5 domain separation
	heads := map[string]map[string]bool{}
	for kind, mname := range map[string]string{"proposal": "WriteProposalSigningContent", "prevote": "WritePrevoteSigningContent", "precommit": "WritePrecommitSigningContent"} {
		fn := w.Fn("tmconsensustest.SimpleSignatureScheme." + mname)
		if fn == nil {
			r.Fail("C15.5", kind, "", "method not found")
			continue
		}
		hs := map[string]bool{}
		fmtHeads(w, fn, map[int]string{}, hs, 0)
		heads[kind] = hs
		unknown := false
		for h := range hs {
			if strings.Contains(h, "?") || strings.Contains(h, "%") {
				unknown = true
			}
		}
		r.Check(len(hs) > 0 && !unknown, "C15.5", kind+"(leading-lines)", w.Pos(fn.Pos()), fmt.Sprintf("possible leading lines: %q", setKeys(hs)))
	}
	kinds := []string{"proposal", "prevote", "precommit"}
	for i := 0; i < len(kinds); i++ {
		for j := i + 1; j < len(kinds); j++ {
			var clash []string
			for a1 := range heads[kinds[i]] {
				for b1 := range heads[kinds[j]] {
					if a1 == b1 || strings.HasPrefix(a1, b1) || strings.HasPrefix(b1, a1) {
						clash = append(clash, a1+" ~ "+b1)
					}
				}
			}
			r.Check(len(clash) == 0, "C15.5", kinds[i]+"|"+kinds[j]+"(disjoint)", "", "leading lines of different kinds must be distinct and prefix-free; clashes: "+strings.Join(clash, "; "))
		}
	}
	// within a kind: nil and non-nil variants distinct, nil under BlockHash == ""
	for _, kind := range []string{"prevote", "precommit"} {
		hs := setKeys(heads[kind])
		r.Check(len(hs) == 2, "C15.5", kind+"(nil-and-block-variants)", "", fmt.Sprintf("a vote kind has exactly two leading lines (nil, block): %q", hs))
	}
	for _, mname := range []string{"WritePrevoteSigningContent", "WritePrecommitSigningContent"} {
		fn := w.Fn("tmconsensustest.SimpleSignatureScheme." + mname)
		if fn == nil {
			continue
		}
		// all functions reachable for this method
		fns := []*ssa.Function{fn}
		fa := w.AU(fn)
		fa.Instrs(func(in ssa.Instruction) {
			if c := callCommon(in); c != nil {
				if f := c.StaticCallee(); f != nil && f.Blocks != nil && strings.HasSuffix(pkgPathOf(f), "tmconsensustest") {
					fns = append(fns, f)
				}
			}
		})
		okAll := false
		for _, f := range fns {
			ffa := w.A(f)
			ffa.Instrs(func(in ssa.Instruction) {
				c := callCommon(in)
				if c == nil {
					return
				}
				if _, n := calleeName(c); n != "fmt.Fprintf" {
					return
				}
				s := ffa.sh.callShape(c).String()
				if strings.Contains(s, ".Height") && strings.Contains(s, ".Round") && strings.Contains(s, ".BlockHash") {
					okAll = true
				}
			})
		}
		r.Check(okAll, "C15.5", mname+"(all-target-fields)", w.Pos(fn.Pos()), "height, round and block hash of the vote target are all written for a block vote")
	}
	r.Expect("C15.1", 14, "header field coverage")
	r.Expect("C15.4", 8, "format strings")
	r.Expect("C15.5", 8, "domain separation")
}

// fmtHeads collects the possible first lines of the formats written by fn and
// the package-local helpers it calls; env maps parameter index -> constant string.
func fmtHeads(w *World, fn *ssa.Function, env map[int]string, out map[string]bool, depth int) {
	if depth > 3 {
		return
	}
	a := w.A(fn)
	constOf := func(v ssa.Value) (string, bool) {
		for {
			if mi, ok := v.(*ssa.MakeInterface); ok {
				v = mi.X
				continue
			}
			break
		}
		if k, ok := v.(*ssa.Const); ok && k.Value != nil && k.Value.Kind() == constant.String {
			return constant.StringVal(k.Value), true
		}
		if p, ok := v.(*ssa.Parameter); ok {
			for i, q := range fn.Params {
				if q == p {
					if s, ok := env[i]; ok {
						return s, true
					}
				}
			}
		}
		return "", false
	}
	a.Instrs(func(in ssa.Instruction) {
		c := callCommon(in)
		if c == nil {
			return
		}
		_, n := calleeName(c)
		if n == "fmt.Fprintf" || n == "fmt.Fprint" || n == "io.WriteString" {
			if len(c.Args) < 2 {
				return
			}
			fstr, ok := constOf(c.Args[1])
			if !ok {
				out["?"] = true
				return
			}
			head := fstr
			if i := strings.Index(fstr, "\n"); i >= 0 {
				head = fstr[:i+1]
			}
			// substitute verbs in the head from the variadic arguments
			if strings.Contains(head, "%") && len(c.Args) >= 3 {
				if sl, ok := c.Args[2].(*ssa.Slice); ok {
					if al, ok := sl.X.(*ssa.Alloc); ok && al.Referrers() != nil {
						elems := map[int]ssa.Value{}
						for _, ref := range *al.Referrers() {
							if ia, ok := ref.(*ssa.IndexAddr); ok && ia.Referrers() != nil {
								if k, ok := ia.Index.(*ssa.Const); ok {
									if idx, ok := constInt(k); ok {
										for _, r2 := range *ia.Referrers() {
											if st, ok := r2.(*ssa.Store); ok {
												elems[idx] = st.Val
											}
										}
									}
								}
							}
						}
						idx := 0
						head = fmtVerb.ReplaceAllStringFunc(head, func(verb string) string {
							v, ok := elems[idx]
							idx++
							if !ok {
								return "?"
							}
							if s, ok := constOf(v); ok && strings.HasSuffix(verb, "s") {
								return s
							}
							return "?"
						})
					}
				}
			}
			// only a write that can be the first one of the message defines a leading line: a write
			// dominated by an earlier write of the same function is a continuation section
			// (annotations), whatever its label or loop structure
			for _, prev := range fmtWrites(a) {
				if prev != in && Dominates(prev, in) {
					return
				}
			}
			out[head] = true
			return
		}
		if f := c.StaticCallee(); f != nil && f.Blocks != nil && strings.HasSuffix(pkgPathOf(f), "tmconsensustest") && f != fn {
			nenv := map[int]string{}
			for i, arg := range c.Args {
				if s, ok := constOf(arg); ok {
					nenv[i] = s
				}
			}
			fmtHeads(w, f, nenv, out, depth+1)
		}
	})
}

// taintCanary builds no code; it exercises the taint lattice on a hand-made
// miniature of the defect to make sure a rule with expected count zero still bites.
func taintCanary() bool {
	t := &taint{}
	t.merge(&taint{fields: map[string]bool{"key": true}})
	if t.scalar || !t.fields["key"] || t.fields["raw"] {
		return false
	}
	s := &taint{}
	s.merge(&taint{scalar: true})
	return s.scalar
}

// sliceRoots follows a slice value back to where its backing variable comes
// from (local variable cell, make, or an opaque producer), through appends,
// phis, re-slicing, loads and interface boxing.
func sliceRoots(v ssa.Value, seen map[ssa.Value]bool, out map[ssa.Value]bool) {
	if seen[v] {
		return
	}
	seen[v] = true
	switch x := v.(type) {
	case *ssa.MakeInterface:
		sliceRoots(x.X, seen, out)
	case *ssa.ChangeType:
		sliceRoots(x.X, seen, out)
	case *ssa.Slice:
		sliceRoots(x.X, seen, out)
	case *ssa.Phi:
		for _, e := range x.Edges {
			sliceRoots(e, seen, out)
		}
	case *ssa.UnOp:
		if x.Op == token.MUL {
			out[x.X] = true // the variable cell
			return
		}
		out[v] = true
	case *ssa.Call:
		if b, ok := x.Call.Value.(*ssa.Builtin); ok && b.Name() == "append" {
			sliceRoots(x.Call.Args[0], seen, out)
			return
		}
		out[v] = true
	default:
		out[v] = true
	}
}

func sameSliceVar(a, b ssa.Value) bool {
	ra, rb := map[ssa.Value]bool{}, map[ssa.Value]bool{}
	sliceRoots(a, map[ssa.Value]bool{}, ra)
	sliceRoots(b, map[ssa.Value]bool{}, rb)
	for v := range ra {
		if c, ok := v.(*ssa.Const); ok && c.IsNil() {
			continue
		}
		if rb[v] {
			return true
		}
	}
	return false
}

// fmtWrites lists the formatted-write calls of a function.
func fmtWrites(a *FnA) []ssa.Instruction {
	var out []ssa.Instruction
	a.Instrs(func(in ssa.Instruction) {
		if c := callCommon(in); c != nil {
			if _, n := calleeName(c); n == "fmt.Fprintf" || n == "fmt.Fprint" || n == "io.WriteString" {
				out = append(out, in)
			}
		}
	})
	return out
}
