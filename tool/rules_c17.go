package main

import (
	"fmt"
	"go/token"
	"strings"

	"golang.org/x/tools/go/ssa"
)

func init() {
	register(&PropMeta{
		ID: "C17", Title: "Gossip broadcasts everything the node knows and nothing else",
		Explanation: "Decides the structure of the shipped ChattyStrategy: (1) only the three broadcast helpers send on the broadcaster's outgoing channels, and what they send is built from their view parameter alone (each proposed header of the view; the sparse form of {view.Height, view.Round, view.PrevoteProofs / PrecommitProofs}) — nothing else is ever offered; (2) broadcastAll calls all three helpers; the diff function falls back to broadcastAll whenever height or round differ and only otherwise to the updates-only comparison; the first update broadcasts every supplied view in full; the precommits of a nil-voted round are broadcast on every path on which the update carries one, with no further condition; (3) the updates-only predicate must be strictly monotone in the per-target signer sets — comparing the cardinality of a signer set that was unioned across targets is not, because a second signature by an already counted validator for another target leaves it unchanged (recorded known finding); (4) after a view was handled the remembered previous view is replaced by it on the same path.",
		NotDecided:  "completeness for arbitrary update sequences beyond the predicate shape; behaviour of the broadcaster",
		Assumptions: []string{"the strategy kernel is the only reader of its update channel"},
		Run:         runC17,
	})
}

func runC17(r *Run) {
	w := r.W
	ord17 := Ord{}
	r.Rule("C17.1", "WMC/PROV: only the three broadcast helpers send on ConsensusBroadcaster.Outgoing* channels; payloads are built from the view parameter only")
	r.Rule("C17.2", "broadcastAll reaches all three helpers; the diff falls back to broadcastAll unless height and round are equal; the first update is broadcast in full; nil-voted round precommits are broadcast unconditionally")
	r.Rule("C17.3", "the updates-only predicate is strictly monotone in per-target signer sets (no cardinality of a cross-target union)")
	r.Rule("C17.4", "the remembered previous view is replaced by the update's view on every path that handled it")

	fns := w.FuncsInPkg("tm/tmgossip")
	helpers := map[string]string{
		"tmgossip.ChattyStrategy.broadcastProposedBlocks": "tmp2p.ConsensusBroadcaster.OutgoingProposedHeaders",
		"tmgossip.ChattyStrategy.broadcastPrevotes":       "tmp2p.ConsensusBroadcaster.OutgoingPrevoteProofs",
		"tmgossip.ChattyStrategy.broadcastPrecommits":     "tmp2p.ConsensusBroadcaster.OutgoingPrecommitProofs",
	}
	// ---- C17.1
	for _, fn := range fns {
		a := w.A(fn)
		ord := Ord{}
		for _, s := range a.Sends() {
			ch := a.sh.Of(s.Chan)
			if ch.K != "invoke" || !strings.HasPrefix(ch.S, "tmp2p.ConsensusBroadcaster.Outgoing") {
				continue
			}
			con := ord.Next(FuncName(fn) + "#broadcast")
			want, isHelper := helpers[FuncName(fn)]
			val := a.sh.Of(s.Val).String()
			ok := isHelper && ch.S == want
			if ok {
				switch want {
				case "tmp2p.ConsensusBroadcaster.OutgoingProposedHeaders":
					ok = val == "p2.RoundView.ProposedHeaders[#i]"
				case "tmp2p.ConsensusBroadcaster.OutgoingPrevoteProofs":
					ok = val == "@tmconsensus.PrevoteProof.AsSparse(lit:tmconsensus.PrevoteProof{Height:p2.RoundView.Height,Round:p2.RoundView.Round,Proofs:p2.RoundView.PrevoteProofs})#0"
				case "tmp2p.ConsensusBroadcaster.OutgoingPrecommitProofs":
					ok = val == "@tmconsensus.PrecommitProof.AsSparse(lit:tmconsensus.PrecommitProof{Height:p2.RoundView.Height,Round:p2.RoundView.Round,Proofs:p2.RoundView.PrecommitProofs})#0"
				}
			}
			r.Check(ok, "C17.1", con, w.InstrPos(s.Instr), "send on "+ch.S+" of "+truncate(val, 200))
		}
	}
	r.Expect("C17.1", 3, "broadcast send sites")

	// ---- C17.2
	if fn := w.Fn("tmgossip.ChattyStrategy.broadcastAll"); fn != nil {
		a := w.AU(fn)
		ok := true
		for h := range helpers {
			cs := a.CallsTo(h)
			if len(cs) != 1 || a.sh.Of(CallArg(cs[0], 2)).String() != "p2" {
				ok = false
			}
		}
		// each later helper is skipped only when an earlier one failed (context cancelled)
		r.Check(ok, "C17.2", "tmgossip.ChattyStrategy.broadcastAll", w.Pos(fn.Pos()), "broadcastAll offers proposed headers, prevotes and precommits of the same view")
	} else {
		r.Fail("C17.2", "broadcastAll", "", "not found")
	}
	if fn := w.Fn("tmgossip.ChattyStrategy.broadcastViewDiff"); fn != nil {
		a := w.AU(fn)
		for i, c := range a.CallsTo("tmgossip.ChattyStrategy.broadcastUpdatesOnly") {
			r.RequireGuards(a, "C17.2", fmt.Sprintf("tmgossip.ChattyStrategy.broadcastViewDiff#updates-only%d", i+1), c,
				G{Name: "same-height", Pattern: "(p3.RoundView.Height == p2.RoundView.Height)", Holds: true},
				G{Name: "same-round", Pattern: "(p3.RoundView.Round == p2.RoundView.Round)", Holds: true})
		}
		alls := a.CallsTo("tmgossip.ChattyStrategy.broadcastAll")
		okAll := len(alls) == 1 && a.sh.Of(CallArg(alls[0], 2)).String() == "p3"
		// every return value is the result of one of the two calls
		for _, ret := range a.Returns() {
			s := a.sh.Of(ret.Results[0]).String()
			if !strings.HasPrefix(s, "@tmgossip.ChattyStrategy.broadcastAll(") && !strings.HasPrefix(s, "@tmgossip.ChattyStrategy.broadcastUpdatesOnly(") {
				okAll = false
			}
		}
		r.Check(okAll, "C17.2", "tmgossip.ChattyStrategy.broadcastViewDiff(fallback)", w.Pos(fn.Pos()), "a view for another height or round is broadcast in full")
	}
	// the count-based diff is only meaningful between two snapshots of the same height and round:
	// every call of broadcastUpdatesOnly, wherever it is, compares its own two view arguments for
	// equal height and equal round first
	for _, cs := range w.CallersOf(w.FuncsInPkg("tm/tmgossip"), "tmgossip.ChattyStrategy.broadcastUpdatesOnly") {
		ca := w.A(cs.Fn)
		prev, cur := ca.sh.Of(CallArg(cs.Instr, 2)).String(), ca.sh.Of(CallArg(cs.Instr, 3)).String()
		con := ord17.Next(FuncName(cs.Fn) + "->broadcastUpdatesOnly")
		okH := ca.IfEdgesAlt(Spec("("+cur+".RoundView.Height == "+prev+".RoundView.Height)", true, nil), Spec("("+prev+".RoundView.Height == "+cur+".RoundView.Height)", true, nil))
		okR := ca.IfEdgesAlt(Spec("("+cur+".RoundView.Round == "+prev+".RoundView.Round)", true, nil), Spec("("+prev+".RoundView.Round == "+cur+".RoundView.Round)", true, nil))
		r.Check(len(okH) > 0 && len(okR) > 0 && ca.EveryPathTakes(cs.Instr, okH) && ca.EveryPathTakes(cs.Instr, okR), "C17.2", con, w.InstrPos(cs.Instr),
			"the updates-only diff of "+truncate(prev, 60)+" and "+truncate(cur, 60)+" must be guarded by their heights and rounds being equal (otherwise equal counts hide a different round's content, which is then never sent)")
	}
	k := w.Fn("tmgossip.ChattyStrategy.kernel")
	if k == nil {
		r.Fail("C17.2", "kernel", "", "not found")
		return
	}
	ka := w.AU(k)
	// first update: broadcastAll for Voting and, when present, Committing and NextRound
	firstAll := 0
	for _, c := range ka.CallsTo("tmgossip.ChattyStrategy.broadcastAll") {
		arg := ka.sh.Of(CallArg(c, 2)).String()
		if strings.Contains(arg, `"waiting for first update")#0.`) {
			firstAll++
		}
	}
	r.Check(firstAll == 3, "C17.2", "tmgossip.ChattyStrategy.kernel(first-update)", w.Pos(k.Pos()), fmt.Sprintf("the first update broadcasts its voting, committing and next-round views in full (%d of 3)", firstAll))
	// nil-voted round: unconditional
	nvOK := false
	for _, b := range ka.blocks() {
		if len(b.Instrs) == 0 {
			continue
		}
		ifi, ok := b.Instrs[len(b.Instrs)-1].(*ssa.If)
		if !ok {
			continue
		}
		p := NormPred(ka.sh.Of(ifi.Cond))
		if p.Op != "==" || p.R == nil || p.R.String() != "nil" || !strings.HasSuffix(p.L.String(), ".NilVotedRound") {
			continue
		}
		nilSucc := 0
		if p.Neg {
			nilSucc = 1
		}
		subj := p.L.String()
		ok2, wit := AllPathsAfterHitE(ifi, func(x ssa.Instruction) bool {
			c, isCall := x.(*ssa.Call)
			if !isCall {
				return false
			}
			_, n := calleeName(&c.Call)
			return n == "tmgossip.ChattyStrategy.broadcastPrecommits" && ka.sh.Of(c.Call.Args[2]).String() == subj
		}, []Edge{{b, nilSucc}})
		det := "when an update carries a nil-voted round its precommits are broadcast on every path, with no further condition"
		if wit != nil {
			det += "; a path skips the broadcast and reaches " + w.InstrPos(wit)
		}
		r.Check(ok2, "C17.2", "tmgossip.ChattyStrategy.kernel(nil-voted-round)", w.InstrPos(ifi), det)
		nvOK = true
	}
	if !nvOK {
		r.Fail("C17.2", "tmgossip.ChattyStrategy.kernel(nil-voted-round)", w.Pos(k.Pos()), "the kernel never looks at NilVotedRound")
	}
	// every view of a later update goes through the diff against the matching previous view
	for _, f := range []string{"Committing", "Voting", "NextRound"} {
		found := false
		for _, c := range ka.CallsTo("tmgossip.ChattyStrategy.broadcastViewDiff") {
			cur := ka.sh.Of(CallArg(c, 3)).String()
			if strings.HasSuffix(cur, ")."+f) && strings.HasPrefix(cur, "(<-") {
				found = true
				// C17.4: the previous view variable is assigned the same view after a successful diff
				prevAlloc := prevViewAlloc(CallArg(c, 2))
				ok4 := false
				if prevAlloc != nil && prevAlloc.Referrers() != nil {
					for _, ref := range *prevAlloc.Referrers() {
						if st, ok := ref.(*ssa.Store); ok && st.Addr == prevAlloc && ka.sh.Of(st.Val).String() == cur && ReachesAfter(c, st) {
							e, _ := ka.IfEdgesB("$c", true, Bind{"$c": ka.sh.Of(c.(ssa.Value))}, nil)
							if len(e) > 0 && ka.EveryPathFromTakes(c.Block(), st, e) {
								ok4 = true
							}
						}
					}
				}
				// locals lifted to registers: the phi feeding the next iteration takes the update's view
				if prevAlloc == nil {
					ok4 = phiTakes(CallArg(c, 2), cur, ka)
				}
				r.Check(ok4, "C17.4", "tmgossip.ChattyStrategy.kernel(prev-"+f+")", w.InstrPos(c), "after handling the update's "+f+" view it becomes the remembered previous "+f+" view")
			}
		}
		r.Check(found, "C17.2", "tmgossip.ChattyStrategy.kernel(diff-"+f+")", w.Pos(k.Pos()), "later updates of the "+f+" view go through broadcastViewDiff")
	}
	r.Expect("C17.2", 8, "broadcast control flow")
	r.Expect("C17.4", 3, "previous view bookkeeping")

	// ---- C17.3
	if fn := w.Fn("tmgossip.ChattyStrategy.broadcastUpdatesOnly"); fn != nil {
		a := w.AU(fn)
		// bit sets that receive InPlaceUnion inside a loop over a proof map
		unioned := map[string]bool{}
		for _, c := range a.CallsTo("bitset.BitSet.InPlaceUnion") {
			if inMapRangeLoop(c) {
				unioned[a.sh.Of(CallArg(c, 0)).String()] = true
			}
		}
		n := 0
		for _, b := range a.blocks() {
			if len(b.Instrs) == 0 {
				continue
			}
			ifi, ok := b.Instrs[len(b.Instrs)-1].(*ssa.If)
			if !ok {
				continue
			}
			p := NormPred(a.sh.Of(ifi.Cond))
			if p.Op != "==" || p.R == nil {
				continue
			}
			for _, side := range []*Shape{p.L, p.R} {
				if side.K == "call" && side.S == "bitset.BitSet.Count" && unioned[side.A[0].String()] {
					n++
					kind := "prevote"
					if n > 1 {
						kind = "precommit"
					}
					r.Fail("C17.3", "tmgossip.ChattyStrategy.broadcastUpdatesOnly("+kind+"-predicate)", w.InstrPos(ifi),
						"re-broadcast is decided by comparing the number of distinct signers across all targets: a new signature by an already counted validator for another target (equivocation) does not change it and is never broadcast")
					break
				}
			}
		}
		if n == 0 {
			r.Pass("C17.3", "tmgossip.ChattyStrategy.broadcastUpdatesOnly(predicate)", w.Pos(fn.Pos()), "no cardinality of a cross-target union decides re-broadcast")
		}
		// the three parts of a view are diffed independently: one update may change several of them
		// (the mirror coalesces accepted messages while the strategy is blocked), so every return that
		// can report success has passed the test guarding each of the three broadcasts
		for _, helper := range []string{"broadcastProposedBlocks", "broadcastPrevotes", "broadcastPrecommits"} {
			calls := a.CallsTo("tmgossip.ChattyStrategy." + helper)
			con := "tmgossip.ChattyStrategy.broadcastUpdatesOnly(independent:" + helper + ")"
			if len(calls) != 1 {
				r.Fail("C17.3", con, w.Pos(fn.Pos()), fmt.Sprintf("expected exactly one call of %s, found %d", helper, len(calls)))
				continue
			}
			var guard *ssa.BasicBlock
			for b := calls[0].Block().Idom(); b != nil; b = b.Idom() {
				if _, ok := b.Instrs[len(b.Instrs)-1].(*ssa.If); ok {
					guard = b
					break
				}
			}
			if guard == nil {
				r.Pass("C17.3", con, w.InstrPos(calls[0]), "broadcast unconditionally")
				continue
			}
			// what the change test of a vote kind is computed from: the signatures in that kind's
			// proofs (a count per target), never the weighted VoteSummary (a signature of a
			// zero-power validator, or any change that leaves the power sums equal, must still be sent)
			if helper != "broadcastProposedBlocks" {
				kind := strings.TrimSuffix(strings.TrimPrefix(helper, "broadcast"), "s") // Prevote / Precommit
				ifi := guard.Instrs[len(guard.Instrs)-1].(*ssa.If)
				srcs := map[string]bool{}
				countSources(w, a, ifi.Cond, 0, srcs, map[ssa.Value]bool{})
				fromProofs, fromSummary := false, false
				for sname := range srcs {
					if strings.Contains(sname, ".RoundView."+kind+"Proofs") {
						fromProofs = true
					}
					if strings.Contains(sname, ".VoteSummary") {
						fromSummary = true
					}
				}
				r.Check(fromProofs && !fromSummary, "C17.3", "tmgossip.ChattyStrategy.broadcastUpdatesOnly("+strings.ToLower(kind)+"-predicate-source)", w.InstrPos(ifi),
					"the "+kind+" change test must be computed from the signatures in both views' "+kind+"Proofs and not from the vote summary's power figures; it reads: "+strings.Join(setKeys(srcs), " | "))
			}
			// path-sensitively: is there a way to a return whose value can be true that never passes the
			// change test of this part? (boolean flags are followed along the path, so an `ok` flag that
			// is false when a stage is skipped does not count as a success)
			where := successReturnAvoiding(w, fn, guard)
			ok := where == ""
			r.Check(ok, "C17.3", con, w.InstrPos(calls[0]), "every return that can report success must have evaluated the change test of "+helper+" (a return at "+where+" skips it: when two parts change in one update, the later part is never sent although the view is remembered as sent)")
		}
		// proposals: any change in count triggers a full re-send of the proposals
		e, _ := a.IfEdges("(@len(p3.RoundView.ProposedHeaders) == @len(p2.RoundView.ProposedHeaders))", false, nil)
		calls := a.CallsTo("tmgossip.ChattyStrategy.broadcastProposedBlocks")
		r.Check(len(e) > 0 && len(calls) == 1 && a.sh.Of(CallArg(calls[0], 2)).String() == "p3", "C17.3", "tmgossip.ChattyStrategy.broadcastUpdatesOnly(proposals)", w.Pos(fn.Pos()), "a changed number of proposed headers re-broadcasts the current view's proposals")
	}
}

func prevViewAlloc(v ssa.Value) *ssa.Alloc {
	if ld, ok := v.(*ssa.UnOp); ok {
		if al, ok := ld.X.(*ssa.Alloc); ok {
			return al
		}
	}
	return nil
}

// phiTakes: v is (a load of) a loop-carried value one of whose incoming edges is the shape cur.
func phiTakes(v ssa.Value, cur string, a *FnA) bool {
	if ph, ok := v.(*ssa.Phi); ok {
		for _, e := range ph.Edges {
			if a.sh.Of(e).String() == cur {
				return true
			}
			if p2, ok := e.(*ssa.Phi); ok {
				for _, e2 := range p2.Edges {
					if a.sh.Of(e2).String() == cur {
						return true
					}
				}
			}
		}
	}
	return false
}

// countSources collects the data a computed number depends on: fields read,
// arguments of helper calls, and the operands of the range loops in which it
// is accumulated (a count filled by side effect inside `for _, p := range m`
// depends on m).
func countSources(w *World, a *FnA, v ssa.Value, depth int, out map[string]bool, seen map[ssa.Value]bool) {
	if v == nil || depth > 8 || seen[v] {
		return
	}
	seen[v] = true
	addLoop := func(in ssa.Instruction) {
		for b := range loopOf(in.Block()) {
			for _, x := range b.Instrs {
				if nx, ok := x.(*ssa.Next); ok {
					if rg, ok := nx.Iter.(*ssa.Range); ok {
						out[a.sh.Of(rg.X).String()] = true
					}
				}
			}
		}
	}
	switch x := v.(type) {
	case *ssa.Const:
	case *ssa.Phi:
		for _, e := range x.Edges {
			countSources(w, a, e, depth+1, out, seen)
		}
	case *ssa.BinOp:
		addLoop(x)
		countSources(w, a, x.X, depth+1, out, seen)
		countSources(w, a, x.Y, depth+1, out, seen)
	case *ssa.UnOp:
		if x.Op == token.MUL {
			if rs := reachingStore(x); rs != nil {
				countSources(w, a, rs, depth+1, out, seen)
				return
			}
			if al, ok := x.X.(*ssa.Alloc); ok {
				for _, sv := range a.sh.allocInfo(al).whole {
					countSources(w, a, sv, depth+1, out, seen)
				}
				return
			}
			out[a.sh.Of(x).String()] = true
			return
		}
		countSources(w, a, x.X, depth+1, out, seen)
	case *ssa.Convert:
		countSources(w, a, x.X, depth+1, out, seen)
	case *ssa.Call:
		addLoop(x)
		callee := x.Call.StaticCallee()
		if callee != nil && callee.Blocks != nil && w.IsProd(callee) {
			for _, arg := range x.Call.Args {
				out[a.sh.Of(arg).String()] = true
			}
			return
		}
		// library call (e.g. BitSet.Count on a scratch set filled in the loop): covered by the loop operand
		for _, arg := range x.Call.Args {
			if _, isAlloc := arg.(*ssa.Alloc); !isAlloc {
				countSources(w, a, arg, depth+1, out, seen)
			}
		}
	case *ssa.Extract:
		countSources(w, a, x.Tuple, depth+1, out, seen)
	default:
		out[a.sh.Of(v).String()] = true
	}
}

// successReturnAvoiding looks for a path from fn's entry to a Return whose (single, boolean) result
// can be true that never enters block avoid. Facts about boolean phis are carried along the path:
// constants received on phi edges, and the outcome of branches on a phi. It returns the position of
// such a return, or "".
func successReturnAvoiding(w *World, fn *ssa.Function, avoid *ssa.BasicBlock) string {
	seen := map[string]bool{}
	found := ""
	var walk func(from, b *ssa.BasicBlock, f pathFacts)
	walk = func(from, b *ssa.BasicBlock, f pathFacts) {
		if found != "" || b == avoid {
			return
		}
		nf := f
		if from != nil {
			nf = f.enter(from, b)
		}
		key := fmt.Sprintf("%d|%s", b.Index, nf.key())
		if seen[key] || len(seen) > 200000 {
			return
		}
		seen[key] = true
		last := b.Instrs[len(b.Instrs)-1]
		switch x := last.(type) {
		case *ssa.Return:
			if b.Comment == "recover" && len(b.Preds) == 0 {
				return
			}
			val := "?"
			if len(x.Results) == 1 {
				switch v := x.Results[0].(type) {
				case *ssa.Const:
					if v.Value != nil {
						val = v.Value.ExactString()
					}
				case *ssa.Phi:
					if known, ok := nf[v]; ok {
						val = known
					}
				}
			}
			if val != "false" {
				found = w.InstrPos(x)
			}
			return
		case *ssa.Panic:
			return
		case *ssa.If:
			if d := nf.decide(b); d >= 0 {
				walk(b, b.Succs[d], nf)
				return
			}
			// branching on a boolean phi tells its value on each edge
			cond, neg := x.Cond, false
			for {
				u, ok := cond.(*ssa.UnOp)
				if !ok || u.Op != token.NOT {
					break
				}
				neg = !neg
				cond = u.X
			}
			for si, sb := range b.Succs {
				ef := nf
				if ph, ok := cond.(*ssa.Phi); ok {
					ef = pathFacts{}
					for k, v := range nf {
						ef[k] = v
					}
					if (si == 0) != neg {
						ef[ph] = "true"
					} else {
						ef[ph] = "false"
					}
				}
				walk(b, sb, ef)
			}
			return
		}
		for _, sb := range b.Succs {
			walk(b, sb, nf)
		}
	}
	walk(nil, fn.Blocks[0], pathFacts{})
	return found
}
