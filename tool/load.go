package main

import (
	"fmt"
	"go/ast"
	"go/token"
	"go/types"
	"os"
	"sort"
	"strings"

	"golang.org/x/tools/go/callgraph"
	"golang.org/x/tools/go/callgraph/cha"
	"golang.org/x/tools/go/callgraph/vta"
	"golang.org/x/tools/go/packages"
	"golang.org/x/tools/go/ssa"
	"golang.org/x/tools/go/ssa/ssautil"
)

const modPath = "github.com/gordian-engine/gordian"

// World is the type-checked, SSA-built view of /repo for one build configuration.
type World struct {
	Tags   string
	Fset   *token.FileSet
	Pkgs   []*packages.Package // root packages (module packages)
	ByPath map[string]*packages.Package
	Prog   *ssa.Program
	SSA    map[string]*ssa.Package // by import path
	// all functions with bodies that belong to the module, keyed by short name
	Funcs map[string]*ssa.Function
	// every function (incl. anonymous) of module packages
	AllFuncs []*ssa.Function
	cg       *callgraph.Graph
	consts   map[string]map[string]string // type string -> const exact value -> qualified short name
	inline   map[*ssa.Function]*frame
	invoked  map[string]bool
	named    map[string]bool // names looked up as anchors (blind-spot census only)
}

func repoDir() string {
	if d := os.Getenv("GVERIF_REPO"); d != "" {
		return d
	}
	return "/repo"
}

// LoadWorld loads ./... from the repository working tree.
// overlay maps absolute file names to replacement contents (used by the self-test only).
func LoadWorld(tags string, overlay map[string][]byte) (*World, error) {
	cfg := &packages.Config{
		Mode:    packages.LoadSyntax | packages.NeedDeps | packages.NeedImports,
		Dir:     repoDir(),
		Tests:   false,
		Overlay: overlay,
		Env:     append(os.Environ(), "GOWORK=off", "GOFLAGS=-mod=mod", "GOPROXY=off", "GOSUMDB=off", "GOTOOLCHAIN=local"),
	}
	if tags != "" {
		cfg.BuildFlags = []string{"-tags=" + tags}
	}
	pkgs, err := packages.Load(cfg, "./...")
	if err != nil {
		return nil, fmt.Errorf("packages.Load: %w", err)
	}
	var errs []string
	packages.Visit(pkgs, nil, func(p *packages.Package) {
		for _, e := range p.Errors {
			errs = append(errs, e.Error())
		}
	})
	if len(errs) > 0 {
		sort.Strings(errs)
		if len(errs) > 10 {
			errs = errs[:10]
		}
		return nil, fmt.Errorf("type/load errors (%d): %s", len(errs), strings.Join(errs, "; "))
	}
	if len(pkgs) < 40 {
		return nil, fmt.Errorf("only %d packages loaded from %s; expected the whole module (>= 40)", len(pkgs), repoDir())
	}
	w := &World{Tags: tags, Pkgs: pkgs, ByPath: map[string]*packages.Package{}, SSA: map[string]*ssa.Package{}, Funcs: map[string]*ssa.Function{}}
	w.Fset = pkgs[0].Fset
	prog, spkgs := ssautil.AllPackages(pkgs, ssa.InstantiateGenerics)
	prog.Build()
	w.Prog = prog
	for i, p := range pkgs {
		w.ByPath[p.PkgPath] = p
		if spkgs[i] != nil {
			w.SSA[p.PkgPath] = spkgs[i]
		}
	}
	for fn := range ssautil.AllFunctions(prog) {
		if fn.Pkg == nil && fn.Parent() == nil {
			// may be an instantiated generic or wrapper; attribute by origin
			if fn.Origin() == nil || fn.Origin().Pkg == nil {
				continue
			}
		}
		pk := fnPkg(fn)
		if pk == nil || !strings.HasPrefix(pk.Pkg.Path(), modPath) {
			continue
		}
		if fn.Blocks == nil {
			continue
		}
		if fn.Synthetic != "" && fn.Parent() == nil && !strings.HasPrefix(fn.Synthetic, "instance of") {
			// wrappers, thunks, bound methods, init: skip synthetic ones
			if fn.Name() != "init" {
				continue
			}
		}
		w.AllFuncs = append(w.AllFuncs, fn)
		w.Funcs[FuncName(fn)] = fn
	}
	// generic methods that are never instantiated or referenced are not in AllFunctions: add declared ones
	for _, sp := range w.SSA {
		for _, mem := range sp.Members {
			tp, ok := mem.(*ssa.Type)
			if !ok {
				continue
			}
			named, ok := tp.Type().(*types.Named)
			if !ok {
				continue
			}
			for i := 0; i < named.NumMethods(); i++ {
				fn := prog.FuncValue(named.Method(i))
				if fn == nil || fn.Blocks == nil {
					continue
				}
				if _, have := w.Funcs[FuncName(fn)]; have {
					continue
				}
				var add func(f *ssa.Function)
				add = func(f *ssa.Function) {
					w.AllFuncs = append(w.AllFuncs, f)
					w.Funcs[FuncName(f)] = f
					for _, an := range f.AnonFuncs {
						add(an)
					}
				}
				add(fn)
			}
		}
	}
	sort.Slice(w.AllFuncs, func(i, j int) bool { return FuncName(w.AllFuncs[i]) < FuncName(w.AllFuncs[j]) })
	w.buildConsts()
	return w, nil
}

func fnPkg(fn *ssa.Function) *ssa.Package {
	for f := fn; f != nil; f = f.Parent() {
		if f.Pkg != nil {
			return f.Pkg
		}
		if o := f.Origin(); o != nil && o.Pkg != nil {
			return o.Pkg
		}
	}
	return nil
}

// shortPkg turns an import path into the rendering used in names: the last path element.
func shortPkg(path string) string {
	if i := strings.LastIndex(path, "/"); i >= 0 {
		return path[i+1:]
	}
	return path
}

// FuncName renders a function as pkg.Func, pkg.Type.Method, with $n suffixes for closures.
func FuncName(fn *ssa.Function) string {
	if fn == nil {
		return "<nil>"
	}
	if fn.Parent() != nil {
		// anonymous function: parent$N
		name := fn.Name() // e.g. "HandleX$1"
		if i := strings.LastIndex(name, "$"); i >= 0 {
			return FuncName(fn.Parent()) + name[i:]
		}
		return FuncName(fn.Parent()) + "$" + name
	}
	pk := ""
	if p := fnPkg(fn); p != nil {
		pk = p.Pkg.Name()
	} else if fn.Object() != nil && fn.Object().Pkg() != nil {
		pk = fn.Object().Pkg().Name()
	}
	if recv := fn.Signature.Recv(); recv != nil {
		return pk + "." + typeBaseName(recv.Type()) + "." + stripTypeArgs(fn.Name())
	}
	return pk + "." + stripTypeArgs(fn.Name())
}

// stripTypeArgs removes the instantiation suffix of generic functions.
func stripTypeArgs(n string) string {
	if i := strings.Index(n, "["); i >= 0 {
		return n[:i]
	}
	return n
}

func typeBaseName(t types.Type) string {
	for {
		if p, ok := t.(*types.Pointer); ok {
			t = p.Elem()
			continue
		}
		break
	}
	if n, ok := t.(*types.Named); ok {
		return n.Obj().Name()
	}
	if a, ok := t.(*types.Alias); ok {
		return a.Obj().Name()
	}
	return t.String()
}

// TypeName renders a type as pkg.Name for named types (pointers stripped), else its string.
func TypeName(t types.Type) string {
	for {
		if p, ok := t.(*types.Pointer); ok {
			t = p.Elem()
			continue
		}
		break
	}
	t = types.Unalias(t)
	if n, ok := t.(*types.Named); ok {
		if n.Obj().Pkg() != nil {
			return n.Obj().Pkg().Name() + "." + n.Obj().Name()
		}
		return n.Obj().Name()
	}
	return types.TypeString(t, func(p *types.Package) string { return p.Name() })
}

func (w *World) buildConsts() {
	w.consts = map[string]map[string]string{}
	packages.Visit(w.Pkgs, nil, func(p *packages.Package) {
		if p.Types == nil {
			return
		}
		sc := p.Types.Scope()
		for _, name := range sc.Names() {
			c, ok := sc.Lookup(name).(*types.Const)
			if !ok {
				continue
			}
			if _, isNamed := types.Unalias(c.Type()).(*types.Named); !isNamed {
				continue
			}
			tn := TypeName(c.Type())
			m := w.consts[tn]
			if m == nil {
				m = map[string]string{}
				w.consts[tn] = m
			}
			key := c.Val().ExactString()
			q := p.Types.Name() + "." + name
			if old, ok := m[key]; !ok || q < old {
				m[key] = q
			}
		}
	})
}

// ConstsOfType lists the named constants of a named type, value -> name.
func (w *World) ConstsOfType(tn string) map[string]string { return w.consts[tn] }

// Fn returns the function with the given short name or nil.
func (w *World) Fn(name string) *ssa.Function {
	if w.named == nil {
		w.named = map[string]bool{}
	}
	w.named[name] = true
	return w.Funcs[name]
}

// Pos renders a position relative to the repository root.
func (w *World) Pos(p token.Pos) string {
	if !p.IsValid() {
		return "-"
	}
	pos := w.Fset.Position(p)
	f := strings.TrimPrefix(pos.Filename, repoDir()+"/")
	return fmt.Sprintf("%s:%d", f, pos.Line)
}

func (w *World) InstrPos(i ssa.Instruction) string {
	p := i.Pos()
	if !p.IsValid() {
		// fall back on the first valid position of an operand or the function
		if v, ok := i.(ssa.Value); ok {
			_ = v
		}
		for _, op := range i.Operands(nil) {
			if *op != nil && (*op).Pos().IsValid() {
				return w.Pos((*op).Pos())
			}
		}
		if i.Parent() != nil {
			return w.Pos(i.Parent().Pos())
		}
	}
	return w.Pos(p)
}

// CallGraph lazily builds the VTA call graph over the whole program.
func (w *World) CallGraph() *callgraph.Graph {
	if w.cg == nil {
		all := ssautil.AllFunctions(w.Prog)
		w.cg = vta.CallGraph(all, cha.CallGraph(w.Prog))
	}
	return w.cg
}

// ---- scopes ----

// IsProdPkg reports whether an import path is production code of the module
// (not test support, commands, integration harness).
func IsProdPkg(path string) bool {
	if !strings.HasPrefix(path, modPath) {
		return false
	}
	rel := strings.TrimPrefix(strings.TrimPrefix(path, modPath), "/")
	if rel == "" {
		return true
	}
	for _, el := range strings.Split(rel, "/") {
		if strings.HasSuffix(el, "test") && el != "gtest" {
			return false
		}
		if el == "cmd" || el == "gtest" || el == "tmintegration" || el == "tmdebug" {
			return false
		}
	}
	return true
}

func (w *World) IsProd(fn *ssa.Function) bool {
	p := fnPkg(fn)
	if p == nil {
		return false
	}
	return IsProdPkg(p.Pkg.Path())
}

// ProdFuncs returns all module functions in production packages.
func (w *World) ProdFuncs() []*ssa.Function {
	var out []*ssa.Function
	for _, f := range w.AllFuncs {
		if w.IsProd(f) && !w.Folded(f) {
			out = append(out, f)
		}
	}
	return out
}

// FuncsInPkg returns functions (incl. closures) whose package path ends with suffix.
func (w *World) FuncsInPkg(suffix string) []*ssa.Function {
	var out []*ssa.Function
	for _, f := range w.AllFuncs {
		p := fnPkg(f)
		if p != nil && strings.HasSuffix(p.Pkg.Path(), suffix) && !w.Folded(f) {
			out = append(out, f)
		}
	}
	return out
}

// ---- syntax helpers ----

// FileOf returns the syntax file containing pos.
func (w *World) FileOf(pos token.Pos) (*packages.Package, *ast.File) {
	for _, p := range w.Pkgs {
		for _, f := range p.Syntax {
			if f.FileStart <= pos && pos <= f.FileEnd {
				return p, f
			}
		}
	}
	return nil, nil
}

// FuncDecl finds the declaration syntax of a (non-anonymous) function.
func (w *World) FuncDecl(fn *ssa.Function) *ast.FuncDecl {
	if fn.Syntax() == nil {
		return nil
	}
	if d, ok := fn.Syntax().(*ast.FuncDecl); ok {
		return d
	}
	return nil
}

// LookupType finds a named type by "pkgsuffix.Name", e.g. "tmi.kState".
func (w *World) LookupType(q string) *types.Named {
	i := strings.LastIndex(q, ".")
	if i < 0 {
		return nil
	}
	pk, name := q[:i], q[i+1:]
	var found *types.Named
	packages.Visit(w.Pkgs, nil, func(p *packages.Package) {
		if found != nil || p.Types == nil {
			return
		}
		if shortPkg(p.PkgPath) != pk && !strings.HasSuffix(p.PkgPath, "/"+pk) {
			return
		}
		if !strings.HasPrefix(p.PkgPath, modPath) {
			return
		}
		if o := p.Types.Scope().Lookup(name); o != nil {
			if tn, ok := o.(*types.TypeName); ok {
				if n, ok := types.Unalias(tn.Type()).(*types.Named); ok {
					found = n
				}
			}
		}
	})
	return found
}
