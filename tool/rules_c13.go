package main

import (
	"fmt"
	"go/token"
	"go/types"
	"strings"

	"golang.org/x/tools/go/ssa"
)

func init() {
	register(&PropMeta{
		ID: "C13", Title: "Signature proofs merge as verified set union and round-trip",
		Explanation: "The algebraic laws (union, idempotence, round trip) quantify over runtime values and are not decided. Decided, exactly, are the code-shape conditions they rest on in both shipped schemes: (1) verify-before-set — every instruction that records a signature or sets a signer bit (Simple: p.sigs[...]=, p.bitset.Set; BLS: sigTree.AddSignature; inside sigtree: SigBits/sigs writes) is dominated by the true edge of PubKey.Verify over the proof's own message, the same signature bytes and the key of the same index, and no other function mutates those fields; (2) totality on hostile input — every fixed-width read of a key id is dominated by a length test, index uses by a range test, agreeing between the two schemes' sibling methods; callee preconditions that panic are established at production call sites; (3) clone independence — Clone/Derive allocate fresh storage for every field some method mutates; (4) merge flags — AllValidSignatures is cleared on every rejecting edge and IncreasedSignatures derives from a before/after cardinality comparison; (5) the commit-proof finalizer tests both merge flags.",
		NotDecided:  "set-union/idempotence/round-trip equalities over values; BLS aggregation arithmetic; combinatorial index encode/decode correctness",
		Assumptions: []string{"ed25519 / blst Verify are correct", "bits-and-blooms/bitset method semantics"},
		Run:         runC13,
	})
}

var bitAdders = map[string]bool{"Set": true, "SetTo": true, "SetAll": true, "Flip": true, "FlipRange": true, "InPlaceUnion": true, "InPlaceSymmetricDifference": true, "InsertAt": true, "SetBitsetFrom": true, "Clear": true, "ClearAll": true, "InPlaceIntersection": true, "InPlaceDifference": true, "DeleteAt": true, "Shrink": true, "Compact": true, "CopyFull": false}

// verifyBeforeSet is shared by C01.6, C05.4 and C13.1.
func verifyBeforeSet(r *Run, rule string) {
	w := r.W
	r.Rule(rule, "verify-before-set: every write of a signature/signer bit in a proof is on the true edge of PubKey.Verify(proof message, that signature) for the key of that index; only the reviewed functions write those fields")
	// ---- Simple scheme
	gfns := w.FuncsInPkg("gordian/gcrypto")
	nSinks := 0
	for _, fn := range gfns {
		if fn.Signature.Recv() == nil || typeBaseName(fn.Signature.Recv().Type()) != "SimpleCommonMessageSignatureProof" {
			continue
		}
		a := w.A(fn)
		ord := Ord{}
		a.Instrs(func(in ssa.Instruction) {
			switch x := in.(type) {
			case *ssa.MapUpdate:
				m := a.sh.Of(x.Map).String()
				if m != "p0.sigs" {
					return
				}
				nSinks++
				con := ord.Next(FuncName(fn) + "#sigs-store")
				sig := a.sh.Of(x.Key).String()
				key := a.sh.Of(x.Value).String()
				e, _ := a.IfEdgesB("@@gcrypto.PubKey.Verify($key,p0.msg,$sig)", true, Bind{"$key": a.sh.Of(x.Value), "$sig": a.sh.Of(x.Key)}, nil)
				r.Check(len(e) > 0 && a.EveryPathTakes(in, e), rule, con, w.InstrPos(in), fmt.Sprintf("sigs[%s] = %s must be dominated by %s.Verify(p.msg, %s) == true", sig, key, key, sig))
			case *ssa.Call:
				f := x.Call.StaticCallee()
				if f == nil || f.Signature.Recv() == nil || TypeName(f.Signature.Recv().Type()) != "bitset.BitSet" {
					return
				}
				recv := a.sh.Of(x.Call.Args[0]).String()
				if recv != "p0.bitset" {
					return
				}
				if !bitAdders[f.Name()] {
					return
				}
				nSinks++
				con := ord.Next(FuncName(fn) + "#bitset." + f.Name())
				if f.Name() != "Set" {
					r.Fail(rule, con, w.InstrPos(in), "the signer bit set of a proof is modified by "+f.Name()+" outside the verified single-bit path")
					return
				}
				idx := a.sh.Of(x.Call.Args[1])
				b, ok := Match("p0.keyIdxs[@@gcrypto.PubKey.PubKeyBytes($key)]#0", idx)
				if !ok {
					r.Fail(rule, con, w.InstrPos(in), "bit index is not the index of the verified key: "+idx.String())
					return
				}
				key := b["$key"].String()
				e, _ := a.IfEdgesB("@@gcrypto.PubKey.Verify($key,p0.msg,$sig)", true, Bind{"$key": b["$key"]}, nil)
				known, _ := a.IfEdgesB("p0.keyIdxs[@@gcrypto.PubKey.PubKeyBytes($key)]#1", true, Bind{"$key": b["$key"]}, nil)
				r.Check(len(e) > 0 && a.EveryPathTakes(in, e) && len(known) > 0 && a.EveryPathTakes(in, known), rule, con, w.InstrPos(in),
					"bitset.Set(index of "+key+") must be dominated by the key being a candidate key and by "+key+".Verify(p.msg, sig) == true")
			}
		})
	}
	// success is reported only for a verified signature: every `return nil` of an AddSignature
	// implementation lies behind Verify(..) == true for the offered signature, or behind the offered
	// signature being equal to the one already verified and stored for that key (merge flags and
	// finalized-proof validation are derived from this result)
	for _, fn := range append(append([]*ssa.Function{}, gfns...), w.FuncsInPkg("gcrypto/gblsminsig")...) {
		if fn.Name() != "AddSignature" || fn.Signature.Recv() == nil || fn.Signature.Results().Len() != 1 || len(fn.Params) != 3 {
			continue
		}
		tn := typeBaseName(fn.Signature.Recv().Type())
		if tn != "SimpleCommonMessageSignatureProof" && tn != "SignatureProof" {
			continue
		}
		a := w.AU(fn)
		verified, _ := a.IfEdges("@@gcrypto.PubKey.Verify($key,p0.msg,p1)", true, nil)
		v2, _ := a.IfEdges("@gblsminsig.PubKey.Verify($key,p0.msg,p1)", true, nil)
		verified = append(verified, v2...)
		same, _ := a.IfEdges("@blst.P1Affine.Equals($got,$have)", true, func(b Bind) bool {
			return strings.Contains(b["$got"].String()+b["$have"].String(), "p1") && strings.Contains(b["$got"].String()+b["$have"].String(), "sigtree.Tree.Get(")
		})
		n := 0
		for _, ret := range a.Returns() {
			k, isK := ret.Results[0].(*ssa.Const)
			if !isK || !k.IsNil() {
				continue
			}
			n++
			ok := a.EveryPathTakes(ret, verified, same)
			r.Check(ok, rule, fmt.Sprintf("%s#success-return%d", FuncName(fn), n), w.InstrPos(ret), "AddSignature may report success only after verifying the offered signature (or finding it identical to the stored, verified one)")
		}
		if n == 0 {
			r.Fail(rule, FuncName(fn)+"#success-return", w.Pos(fn.Pos()), "no success return found")
		}
	}
	// who writes the fields at all (other than constructors / Clone / Derive which build new values)
	for _, f := range []string{"sigs", "bitset"} {
		for _, fw := range w.FieldWrites(gfns, "gcrypto.SimpleCommonMessageSignatureProof", f) {
			fn := FuncName(fw.Fn)
			ok := false
			switch {
			case fw.Kind == "mapupdate" && fn == "gcrypto.SimpleCommonMessageSignatureProof.AddSignature":
				ok = true
			case fw.Kind == "store":
				// composite literals of new proofs
				ok = fn == "gcrypto.NewSimpleCommonMessageSignatureProof" || strings.HasSuffix(fn, ".Clone") || strings.HasSuffix(fn, ".Derive")
			case fw.Kind == "addr-arg":
				ok = false
			}
			r.Check(ok, rule, "writer("+f+")@"+fn, w.InstrPos(fw.Instr), "field "+f+" of the simple proof written here ("+fw.Kind+")")
		}
	}

	// ---- BLS scheme
	bfns := w.FuncsInPkg("gcrypto/gblsminsig")
	for _, fn := range bfns {
		a := w.A(fn)
		ord := Ord{}
		for _, c := range a.CallsTo("sigtree.Tree.AddSignature") {
			nSinks++
			con := ord.Next(FuncName(fn) + "#tree.AddSignature")
			tree := a.sh.Of(CallArg(c, 0)).String()
			idx := a.sh.Of(CallArg(c, 1)).String()
			sig := a.sh.Of(CallArg(c, 2))
			if tree != "p0.sigTree" {
				r.Fail(rule, con, w.InstrPos(c), "AddSignature on a tree that is not the receiver's: "+tree)
				continue
			}
			// two accepted shapes: the key is the tree's key at the same index, or the key whose index was looked up
			e1, _ := a.IfEdgesB("@gblsminsig.PubKey.Verify(@sigtree.Tree.Get(p0.sigTree,$idx)#0,p0.msg,$sig)", true, Bind{"$idx": a.sh.Of(CallArg(c, 1))}, func(b Bind) bool { return sigDerives(sig, b["$sig"]) })
			e2, _ := a.IfEdges("@gblsminsig.PubKey.Verify($pk,p0.msg,$sig)", true, func(b Bind) bool {
				return sigDerives(sig, b["$sig"]) && strings.Contains(idx, "@sigtree.Tree.Index(p0.sigTree,"+b["$pk"].String())
			})
			e := append(e1, e2...)
			r.Check(len(e) > 0 && a.EveryPathTakes(c, e), rule, con, w.InstrPos(c),
				"sigTree.AddSignature("+idx+", sig) must be dominated by Verify(p.msg, sig) == true under the key at that index; sig = "+truncate(sig.String(), 120))
		}
	}
	// inside sigtree: SigBits and sigs are written only by AddSignature (and constructors / ClearSignatures)
	sfns := w.FuncsInPkg("gblsminsig/internal/sigtree")
	for _, fn := range sfns {
		a := w.A(fn)
		ord := Ord{}
		a.Instrs(func(in ssa.Instruction) {
			x, ok := in.(*ssa.Call)
			if !ok {
				return
			}
			f := x.Call.StaticCallee()
			if f == nil || f.Signature.Recv() == nil || TypeName(f.Signature.Recv().Type()) != "bitset.BitSet" || !bitAdders[f.Name()] {
				return
			}
			recv := a.sh.Of(x.Call.Args[0]).String()
			if !strings.HasSuffix(recv, ".SigBits") {
				return
			}
			nSinks++
			con := ord.Next(FuncName(fn) + "#SigBits." + f.Name())
			r.Check(FuncName(fn) == "sigtree.Tree.AddSignature" && (f.Name() == "Set" || f.Name() == "SetAll"), rule, con, w.InstrPos(in), "signer bits of the aggregation tree may only be set by Tree.AddSignature (whose callers verify first)")
		})
		// element stores into t.sigs
		a.Instrs(func(in ssa.Instruction) {
			st, ok := in.(*ssa.Store)
			if !ok {
				return
			}
			if ia, ok := st.Addr.(*ssa.IndexAddr); ok && strings.HasSuffix(a.sh.Of(ia.X).String(), ".sigs") {
				nSinks++
				con := ord.Next(FuncName(fn) + "#sigs[]=")
				r.Check(FuncName(fn) == "sigtree.Tree.AddSignature", rule, con, w.InstrPos(in), "signatures of the aggregation tree may only be stored by Tree.AddSignature")
			}
		})
	}
	// callers of Tree.AddSignature outside gblsminsig
	for _, cs := range w.CallersOf(w.ProdFuncs(), "sigtree.Tree.AddSignature") {
		p := pkgPathOf(cs.Fn)
		r.Check(strings.HasSuffix(p, "gcrypto/gblsminsig"), rule, "caller(Tree.AddSignature)@"+FuncName(cs.Fn), w.InstrPos(cs.Instr), "only the BLS proof may add signatures to the tree")
	}
	r.Expect(rule, 8, "signature/bit write sites in both schemes")
}

// sigDerives: the stored signature value is computed from the verified bytes
// (Uncompress(sig)) or the verified bytes are computed from it (sig.Compress()).
func sigDerives(stored, verified *Shape) bool {
	vs := verified.String()
	ss := stored.String()
	if vs == ss {
		return true
	}
	if strings.Contains(ss, vs) {
		return true
	}
	// verified = Compress(stored)
	if strings.Contains(vs, ss) {
		return true
	}
	// stored = *Uncompress(new, verified) — rendered through a pointer load
	base := strings.TrimPrefix(ss, "*")
	return strings.Contains(base, vs)
}

func runC13(r *Run) {
	w := r.W
	verifyBeforeSet(r, "C13.1")

	// ---------- C13.2 totality: fixed-width reads of key ids
	r.Rule("C13.2", "BND: every binary.BigEndian.Uint16/Uint32/Uint64 read and every constant-index read of a []byte that comes from a parameter (key id, encoded key) is dominated by a length test on that slice; both schemes agree")
	boundedReads(r, "C13.2", append(w.FuncsInPkg("gordian/gcrypto"), w.FuncsInPkg("gcrypto/gblsminsig")...))
	r.Rule("C13.8", "the combination index of finalized BLS proofs is computed exactly: no machine-word product or shift feeds a big.Int in gblsminsig without an overflow test (encode and decode of a finalized proof must agree for every key-set size)")
	exactIndexArithmetic(r, "C13.8")
	r.Expect("C13.2", 6, "fixed-width reads in the signature schemes")

	// ---------- C13.3 clone independence
	r.Rule("C13.3", "Clone/Derive: each field of reference type that some method mutates is freshly allocated in the copy (maps.Clone, slices.Clone, bytes.Clone, .Clone(), make, bitset.New), never the receiver's own reference")
	type cl struct {
		fn      string
		mutable []string
		shared  []string
	}
	for _, c := range []cl{
		{"gcrypto.SimpleCommonMessageSignatureProof.Clone", []string{"sigs", "bitset"}, []string{"keys", "keyHash"}},
		{"gcrypto.SimpleCommonMessageSignatureProof.Derive", []string{"sigs", "bitset"}, []string{"keys", "keyHash"}},
		{"gblsminsig.SignatureProof.Clone", []string{"sigTree"}, []string{"keyHash"}},
		{"gblsminsig.SignatureProof.Derive", []string{"sigTree"}, []string{"keyHash"}},
		{"sigtree.Tree.Clone", []string{"sigs", "SigBits"}, []string{"keys", "nKeys"}},
		{"sigtree.Tree.Derive", []string{"sigs", "SigBits"}, []string{"keys", "nKeys"}},
	} {
		fn := w.Fn(c.fn)
		if fn == nil {
			r.Fail("C13.3", c.fn, "", "method not found")
			continue
		}
		a := w.AU(fn)
		for _, ret := range a.Returns() {
			v := a.sh.Of(ret.Results[0])
			if v.K != "lit" {
				r.Fail("C13.3", c.fn, w.InstrPos(ret), "copy is not built as a fresh literal: "+truncate(v.String(), 160))
				continue
			}
			fields := map[string]*Shape{}
			for i, f := range v.F {
				fields[f] = v.A[i]
			}
			for _, f := range c.mutable {
				s, ok := fields[f]
				fresh := ok && s.String() != "p0."+f && isFresh(s)
				det := "missing"
				if ok {
					det = s.String()
				}
				r.Check(fresh, "C13.3", c.fn+"("+f+")", w.InstrPos(ret), "mutable field "+f+" must be fresh in the copy; got "+truncate(det, 120))
			}
			for _, f := range c.shared {
				s, ok := fields[f]
				r.Check(ok && s.String() == "p0."+f, "C13.3", c.fn+"("+f+")", w.InstrPos(ret), "immutable field "+f+" carried over")
			}
		}
	}
	// the "immutable" fields really are never written outside constructors
	for _, im := range []struct{ typ, field, pkg string }{
		{"gcrypto.SimpleCommonMessageSignatureProof", "keys", "gordian/gcrypto"},
		{"gcrypto.SimpleCommonMessageSignatureProof", "keyIdxs", "gordian/gcrypto"},
		{"gcrypto.SimpleCommonMessageSignatureProof", "msg", "gordian/gcrypto"},
		{"sigtree.Tree", "keys", "gblsminsig/internal/sigtree"},
	} {
		for _, fw := range w.FieldWrites(w.FuncsInPkg(im.pkg), im.typ, im.field) {
			fn := FuncName(fw.Fn)
			ctor := fw.Fn.Signature.Recv() == nil || strings.HasSuffix(fn, ".Clone") || strings.HasSuffix(fn, ".Derive")
			if fw.Kind == "addr-arg" {
				continue
			}
			r.Check(ctor && (fw.Kind == "store"), "C13.3", "immutable("+im.typ+"."+im.field+")@"+fn, w.InstrPos(fw.Instr), "field shared between clones must only be set when a value is constructed ("+fw.Kind+")")
		}
	}
	r.Expect("C13.3", 14, "clone/derive fields")

	// ---------- C13.4 merge flags
	r.Rule("C13.4", "merge flags: every edge that rejects a signature (failed Verify/AddSignature, bad key id, mismatch) clears AllValidSignatures before continuing; IncreasedSignatures is set from a before/after cardinality comparison or on a successful add")
	mergeFlags(r)

	// ---------- C13.6 double-sign detection over per-block signer sets
	r.Rule("C13.6", "Simple scheme ValidateFinalizedProof: every per-message signer set is intersected with the running union of all sets seen so far (any overlap => not unique) and then added to that union")
	if fn := w.Fn("gcrypto.SimpleCommonMessageSignatureProofScheme.ValidateFinalizedProof"); fn != nil {
		a := w.AU(fn)
		var union, inter, anyc []ssa.Instruction
		for _, c := range a.CallsTo("bitset.BitSet.InPlaceUnion") {
			if strings.HasPrefix(a.sh.Of(CallArg(c, 1)).String(), "rv(") && inMapRangeLoop(c) {
				union = append(union, c)
			}
		}
		for _, c := range a.CallsTo("bitset.BitSet.InPlaceIntersection", "bitset.BitSet.IntersectionCardinality", "bitset.BitSet.Intersection") {
			if strings.HasPrefix(a.sh.Of(CallArg(c, 1)).String(), "rv(") && inMapRangeLoop(c) {
				inter = append(inter, c)
			}
		}
		anyc = a.CallsTo("bitset.BitSet.Any")
		ok := len(union) == 1 && len(inter) == 1 && len(anyc) >= 1
		det := fmt.Sprintf("union-accumulations in the loop over signer sets: %d, intersections: %d, overlap tests: %d", len(union), len(inter), len(anyc))
		if ok {
			// the set intersected is a copy of the union accumulator, taken in the same iteration before the union is extended
			accu := a.sh.Of(CallArg(union[0], 0)).String()
			copies := a.CallsTo("bitset.BitSet.CopyFull")
			okCopy := false
			for _, cp := range copies {
				if a.sh.Of(CallArg(cp, 0)).String() == accu && a.sh.Of(CallArg(cp, 1)).String() == a.sh.Of(CallArg(inter[0], 0)).String() && Dominates(cp, inter[0]) {
					okCopy = true
				}
			}
			// both range over the same map of result sets, which is what is returned
			sameMap := a.sh.Of(CallArg(union[0], 1)).String() == a.sh.Of(CallArg(inter[0], 1)).String()
			ok = okCopy && sameMap && Dominates(inter[0], union[0])
			det += fmt.Sprintf("; accumulator %s copied before intersecting: %v; same range: %v", accu, okCopy, sameMap)
			// overlap => returns false
			e, _ := a.IfEdgesB("@bitset.BitSet.Any($s)", true, Bind{"$s": a.sh.Of(CallArg(inter[0], 0))}, nil)
			// from the overlap edge every path ends in a return whose uniqueness result is false
			// (directly, or through a flag cleared on that path: evaluated path-sensitively)
			okRet := len(e) > 0
			for _, ed := range e {
				if !allReturnsAfterEdge(ed, 1, "false") {
					okRet = false
				}
			}
			ok = ok && okRet
			det += fmt.Sprintf("; overlap returns not-unique: %v", okRet)
		}
		r.Check(ok, "C13.6", FuncName(fn), w.Pos(fn.Pos()), det)
	} else {
		r.Fail("C13.6", "ValidateFinalizedProof", "", "function not found")
	}

	// ---------- C13.7 BLS: the order in which Finalize lays out the rest proofs is the order in which
	// ValidateFinalizedProof walks them (each rest key id is a combination index over the keys not
	// used by the entries before it, so a different order decodes to the wrong signers): both
	// comparators order by signer count and, on a tie, by the message ascending
	r.Rule("C13.7", "BLS finalize / validate agree on the order of the rest proofs: both comparators break ties in signer count by comparing the message (sign content) of the two elements, ascending, and return that comparison")
	for _, cn := range []struct{ fn, what string }{{"gblsminsig.sortRestForFinalizing", "Finalize"}, {"gblsminsig.orderedRestSignatures", "ValidateFinalizedProof"}} {
		fn := w.Fn(cn.fn)
		if fn == nil {
			r.Fail("C13.7", cn.fn, "", "function not found")
			continue
		}
		ok, det := false, "no comparator closure handed to a sort"
		w.A(fn).Instrs(func(in ssa.Instruction) {
			c := callCommon(in)
			if c == nil {
				return
			}
			if _, n := calleeName(c); !(strings.HasPrefix(n, "slices.SortFunc") || strings.HasPrefix(n, "sort.Slice") || strings.HasPrefix(n, "slices.SortStableFunc")) {
				return
			}
			for _, arg := range c.Args {
				cf := funcValueOf(arg)
				if cf == nil {
					continue
				}
				ca := w.A(cf)
				// a message comparison in (a, b) order whose result is returned
				tie := ""
				ca.Instrs(func(x ssa.Instruction) {
					cc, isCall := x.(*ssa.Call)
					if !isCall || len(cc.Call.Args) != 2 {
						return
					}
					if _, n := calleeName(&cc.Call); n != "bytes.Compare" && n != "strings.Compare" && n != "cmp.Compare" {
						return
					}
					l, rr := ca.sh.Of(cc.Call.Args[0]).String(), ca.sh.Of(cc.Call.Args[1]).String()
					isMsg := func(s string) bool { return strings.HasSuffix(s, ".msg") || strings.HasSuffix(s, ".signContent") }
					if strings.HasPrefix(l, "p0.") && strings.HasPrefix(rr, "p1.") && isMsg(l) && isMsg(rr) {
						tie = ca.sh.Of(cc).String()
					}
				})
				returned := false
				for _, ret := range ca.Returns() {
					if tie != "" && strings.Contains(ca.sh.Of(ret.Results[0]).String(), tie) {
						returned = true
					}
				}
				ok = tie != "" && returned
				det = "tie-break comparison: " + tie
				if tie == "" {
					det = "the comparator never compares the two elements' messages: equal signer counts are left in input order"
				}
			}
		})
		r.Check(ok, "C13.7", cn.fn+"("+cn.what+" rest order)", w.Pos(fn.Pos()), det)
	}

	// ---------- C13.5 finalizer
	r.Rule("C13.5", "CommitProofFinalizer.Finalize tests AllValidSignatures and IncreasedSignatures of every merge it performs")
	if fn := w.Fn("tsi.CommitProofFinalizer.Finalize"); fn == nil {
		// located by role below
		r.Fail("C13.5", "anchor", "", "tsi.CommitProofFinalizer.Finalize not found")
	} else {
		finalizerRule(r, fn)
	}
}

func isFresh(s *Shape) bool {
	switch s.K {
	case "make":
		return true
	case "call":
		switch s.S {
		case "maps.Clone", "slices.Clone", "bytes.Clone", "bitset.New", "bitset.BitSet.Clone", "make", "sigtree.Tree.Clone", "sigtree.Tree.Derive", "append":
			return true
		}
	case "invoke":
		return strings.HasSuffix(s.S, ".Clone")
	}
	return false
}

// boundedReads checks fixed-width reads on byte slices that derive from parameters.
func boundedReads(r *Run, rule string, fns []*ssa.Function) {
	w := r.W
	for _, fn := range fns {
		if fn.Parent() != nil && false {
			continue
		}
		a := w.A(fn)
		ord := Ord{}
		a.Instrs(func(in ssa.Instruction) {
			c, ok := in.(*ssa.Call)
			if !ok {
				return
			}
			kind, n := calleeName(&c.Call)
			width := 0
			switch {
			case kind == "call" && strings.HasPrefix(n, "binary.bigEndian.Uint") || strings.HasPrefix(n, "binary.littleEndian.Uint"):
				switch {
				case strings.HasSuffix(n, "Uint16"):
					width = 2
				case strings.HasSuffix(n, "Uint32"):
					width = 4
				case strings.HasSuffix(n, "Uint64"):
					width = 8
				}
			}
			if width == 0 {
				return
			}
			arg := c.Call.Args[len(c.Call.Args)-1]
			if sl, ok := arg.(*ssa.Slice); ok && sl.High != nil {
				if k, ok := sl.High.(*ssa.Const); ok {
					if v, ok := constInt(k); ok && v >= width {
						return // x[:n] with constant n >= width: covered by the slicing obligation below
					}
				}
			}
			s := a.sh.Of(arg)
			if !derivesFromParam(s) {
				return // local buffers (e.g. [2]byte arrays) have known length
			}
			con := ord.Next(FuncName(fn) + "#read" + fmt.Sprint(width))
			ok = lengthEstablished(a, in, s, width)
			r.Check(ok, rule, con, w.InstrPos(in), fmt.Sprintf("%d-byte read of %s needs a dominating length test (len == %d / len >= %d)", width, truncate(s.String(), 100), width, width))
		})
		// an index decoded from peer bytes is compared with its bound strictly: idx < n accepts,
		// idx >= n rejects (idx <= n would admit the one-past-the-end index)
		a.Instrs(func(in ssa.Instruction) {
			bo, ok := in.(*ssa.BinOp)
			if !ok {
				return
			}
			// only where the decoded number is an index: the key-id validity predicates, or a value
			// that also indexes a slice in this function (a decoded count k may equal its bound)
			isIdx := fn.Name() == "IsValid" || fn.Name() == "HasSparseKeyID"
			for _, side := range []ssa.Value{bo.X, bo.Y} {
				if decodedIndex(side) && usedAsIndex(side) {
					isIdx = true
				}
			}
			if !isIdx {
				return
			}
			var okOps map[token.Token]bool
			switch {
			case decodedIndex(bo.X) && !isConstVal(bo.Y):
				okOps = map[token.Token]bool{token.LSS: true, token.GEQ: true}
			case decodedIndex(bo.Y) && !isConstVal(bo.X):
				okOps = map[token.Token]bool{token.GTR: true, token.LEQ: true}
			default:
				return
			}
			switch bo.Op {
			case token.LSS, token.LEQ, token.GTR, token.GEQ:
			default:
				return
			}
			con := ord.Next(FuncName(fn) + "#decoded-index-bound")
			r.Check(okOps[bo.Op], rule, con, w.InstrPos(in), "an index decoded from message bytes must be compared strictly with its bound ("+a.sh.Of(bo).String()+")")
		})
		// slicing b[:n] / b[n:] with constant n of a parameter-derived slice
		a.Instrs(func(in ssa.Instruction) {
			sl, ok := in.(*ssa.Slice)
			if !ok {
				return
			}
			if _, isSlice := sl.X.Type().Underlying().(*types.Slice); !isSlice {
				if _, isStr := sl.X.Type().Underlying().(*types.Basic); !isStr {
					return
				}
			}
			s := a.sh.Of(sl.X)
			if !derivesFromParam(s) {
				return
			}
			need := 0
			for _, b := range []ssa.Value{sl.Low, sl.High} {
				if k, ok := b.(*ssa.Const); ok && k.Value != nil {
					if v, ok := constInt(k); ok && v > need {
						need = v
					}
				}
			}
			if need == 0 {
				return
			}
			con := ord.Next(FuncName(fn) + "#slice" + fmt.Sprint(need))
			r.Check(lengthEstablished(a, in, s, need), rule, con, w.InstrPos(in), fmt.Sprintf("slicing %s to constant bound %d needs a dominating length test", truncate(s.String(), 100), need))
		})
	}
}

func constInt(k *ssa.Const) (int, bool) {
	if k.Value == nil {
		return 0, false
	}
	var v int
	if _, err := fmt.Sscan(k.Value.ExactString(), &v); err != nil {
		return 0, false
	}
	return v, true
}

func derivesFromParam(s *Shape) bool {
	found := false
	s.Walk(func(x *Shape) {
		if x.K == "param" || x.K == "rv" || x.K == "rk" {
			found = true
		}
	})
	// a fresh local array rendered as a reference is not parameter data
	if s.K == "slice" && s.A[0].K == "ref" {
		return false
	}
	if s.K == "slice" && s.A[0].K == "const" {
		return false
	}
	return found
}

// lengthEstablished: some dominating If compares len(s) so that at least `width` bytes exist.
func lengthEstablished(a *FnA, at ssa.Instruction, s *Shape, width int) bool {
	str := s.String()
	var edges []Edge
	for _, b := range a.blocks() {
		if len(b.Instrs) == 0 {
			continue
		}
		ifi, ok := b.Instrs[len(b.Instrs)-1].(*ssa.If)
		if !ok || len(b.Succs) != 2 {
			continue
		}
		bo, ok := ifi.Cond.(*ssa.BinOp)
		if !ok {
			continue
		}
		lenOf := func(v ssa.Value) bool {
			sh := a.sh.Of(v)
			return sh.K == "call" && sh.S == "len" && len(sh.A) == 1 && sh.A[0].String() == str
		}
		var k int
		var okc bool
		var op token.Token
		switch {
		case lenOf(bo.X):
			if c, isC := bo.Y.(*ssa.Const); isC {
				k, okc = constInt(c)
			}
			op = bo.Op
		case lenOf(bo.Y):
			if c, isC := bo.X.(*ssa.Const); isC {
				k, okc = constInt(c)
			}
			// mirror
			switch bo.Op {
			case token.LSS:
				op = token.GTR
			case token.GTR:
				op = token.LSS
			case token.LEQ:
				op = token.GEQ
			case token.GEQ:
				op = token.LEQ
			default:
				op = bo.Op
			}
		default:
			continue
		}
		if !okc {
			continue
		}
		// which edge establishes len >= width ?
		switch op {
		case token.EQL: // len == k
			if k >= width {
				edges = append(edges, Edge{b, 0})
			}
		case token.NEQ: // len != k → false edge has len == k
			if k >= width {
				edges = append(edges, Edge{b, 1})
			}
		case token.LSS: // len < k → false edge: len >= k
			if k >= width {
				edges = append(edges, Edge{b, 1})
			}
		case token.GEQ:
			if k >= width {
				edges = append(edges, Edge{b, 0})
			}
		case token.GTR: // len > k → true edge: len >= k+1
			if k+1 >= width {
				edges = append(edges, Edge{b, 0})
			}
		case token.LEQ: // len <= k → false edge: len >= k+1
			if k+1 >= width {
				edges = append(edges, Edge{b, 1})
			}
		}
	}
	return len(edges) > 0 && a.EveryPathTakes(at, edges)
}

// mergeFlags checks C13.4 on the four merge methods.
func mergeFlags(r *Run) {
	w := r.W
	for _, name := range []string{
		"gcrypto.SimpleCommonMessageSignatureProof.Merge", "gcrypto.SimpleCommonMessageSignatureProof.MergeSparse",
		"gblsminsig.SignatureProof.Merge", "gblsminsig.SignatureProof.MergeSparse",
	} {
		fn := w.Fn(name)
		if fn == nil {
			r.Fail("C13.4", name, "", "method not found")
			continue
		}
		a := w.AU(fn)
		// the result variable: an Alloc of type SignatureProofMergeResult
		var res *ssa.Alloc
		a.Instrs(func(in ssa.Instruction) {
			if al, ok := in.(*ssa.Alloc); ok && TypeName(al.Type()) == "gcrypto.SignatureProofMergeResult" && al.Comment != "complit" {
				res = al
			}
		})
		if res == nil {
			r.Fail("C13.4", name+"(result)", w.Pos(fn.Pos()), "no SignatureProofMergeResult local found")
			continue
		}
		// blocks storing AllValidSignatures = false
		clears := map[*ssa.BasicBlock]bool{}
		incSources := []string{}
		a.Instrs(func(in ssa.Instruction) {
			st, ok := in.(*ssa.Store)
			if !ok {
				return
			}
			fa, ok := st.Addr.(*ssa.FieldAddr)
			if !ok || fa.X != res {
				return
			}
			switch fieldName(fa.X.Type(), fa.Field) {
			case "AllValidSignatures":
				if a.sh.Of(st.Val).String() == "false" {
					clears[st.Block()] = true
				}
			case "IncreasedSignatures":
				incSources = append(incSources, a.sh.Of(st.Val).String())
			}
		})
		// rejecting edges: false edge of Verify, non-nil edge of AddSignature error, out-of-range/len tests, Equal mismatch
		type rej struct {
			pat   string
			holds bool
			what  string
		}
		rejects := []rej{
			{"@gblsminsig.PubKey.Verify($...)", false, "failed Verify"},
			{"(@gcrypto.SimpleCommonMessageSignatureProof.AddSignature($...) == nil)", false, "failed AddSignature"},
			{"@@gcrypto.PubKey.Equal($...)", false, "key mismatch"},
			{"@blst.P1Affine.Equals($...)", false, "signature mismatch"},
			{"@sigtree.Tree.Get($...)#2", false, "key id out of range"},
			{"(@len($x.KeyID) == 2)", false, "malformed key id"},
			{"($n < @len(p0.keys))", false, "key id out of range"},
		}
		ord := Ord{}
		nrej := 0
		for _, rj := range rejects {
			edges, ifs := a.IfEdges(rj.pat, rj.holds, nil)
			for i, e := range edges {
				nrej++
				con := ord.Next(name + "#reject(" + rj.what + ")")
				// every path from the rejecting edge back to the loop head / exit passes a clearing block
				start := e.From.Succs[e.Succ]
				ok := clearsBeforeLeaving(start, clears)
				r.Check(ok, "C13.4", con, w.InstrPos(ifs[i]), "rejecting edge ("+rj.what+") must clear AllValidSignatures before the next signature is considered")
			}
		}
		if nrej == 0 {
			r.Fail("C13.4", name+"#reject", w.Pos(fn.Pos()), "no rejecting edge recognised in merge method")
		}
		okInc := len(incSources) > 0
		for _, s := range incSources {
			if !(s == "true" || strings.Contains(s, "Count(")) {
				okInc = false
			}
			if s == "true" {
				// must be on a success edge of AddSignature or after a count comparison
				continue
			}
		}
		r.Check(okInc, "C13.4", name+"(increased)", w.Pos(fn.Pos()), "IncreasedSignatures sources: "+strings.Join(incSources, " | "))
	}
	r.Expect("C13.4", 10, "reject edges and flag sources")
}

// clearsBeforeLeaving: from start, every path reaches a clearing block before
// reaching a loop header (a block with a back edge predecessor) or a return.
func clearsBeforeLeaving(start *ssa.BasicBlock, clears map[*ssa.BasicBlock]bool) bool {
	seen := map[*ssa.BasicBlock]bool{}
	var visit func(b *ssa.BasicBlock) bool
	visit = func(b *ssa.BasicBlock) bool {
		if clears[b] {
			return true
		}
		if seen[b] {
			return true
		}
		seen[b] = true
		if len(b.Instrs) > 0 {
			if _, ok := b.Instrs[len(b.Instrs)-1].(*ssa.Return); ok {
				return false
			}
		}
		if strings.HasSuffix(b.Comment, ".loop") || b.Comment == "for.post" {
			return false
		}
		if len(b.Succs) == 0 {
			return true // panic
		}
		for _, s := range b.Succs {
			if !visit(s) {
				return false
			}
		}
		return true
	}
	return visit(start)
}

func finalizerRule(r *Run, fn *ssa.Function) {
	w := r.W
	a := w.A(fn)
	merges := a.CallsTo("gcrypto.CommonMessageSignatureProof.MergeSparse", "gcrypto.CommonMessageSignatureProof.Merge")
	if len(merges) == 0 {
		r.Fail("C13.5", FuncName(fn)+"#merge", w.Pos(fn.Pos()), "finalizer performs no merge")
		return
	}
	for i, m := range merges {
		con := fmt.Sprintf("%s#merge%d", FuncName(fn), i+1)
		for _, flag := range []string{"AllValidSignatures", "IncreasedSignatures"} {
			_, ifs := a.IfEdgesB("$m."+flag, true, Bind{"$m": a.sh.Of(m.(ssa.Value))}, nil)
			r.Check(len(ifs) > 0, "C13.5", con+"("+flag+")", w.InstrPos(m), "merge result flag "+flag+" must be tested")
		}
	}
}

// decodedIndex: v is an integer decoded from bytes by encoding/binary (possibly converted).
func decodedIndex(v ssa.Value) bool {
	switch x := v.(type) {
	case *ssa.Convert:
		return decodedIndex(x.X)
	case *ssa.ChangeType:
		return decodedIndex(x.X)
	case *ssa.Call:
		_, n := calleeName(&x.Call)
		return strings.HasPrefix(n, "binary.bigEndian.Uint") || strings.HasPrefix(n, "binary.littleEndian.Uint")
	}
	return false
}

func isConstVal(v ssa.Value) bool {
	_, ok := v.(*ssa.Const)
	return ok
}

// usedAsIndex: v (or a conversion of it / of its source) is the index of an element access.
func usedAsIndex(v ssa.Value) bool {
	seen := map[ssa.Value]bool{}
	var up func(x ssa.Value) ssa.Value
	up = func(x ssa.Value) ssa.Value {
		for {
			switch y := x.(type) {
			case *ssa.Convert:
				x = y.X
				continue
			case *ssa.ChangeType:
				x = y.X
				continue
			}
			return x
		}
	}
	var down func(x ssa.Value) bool
	down = func(x ssa.Value) bool {
		if seen[x] || x.Referrers() == nil {
			return false
		}
		seen[x] = true
		for _, ref := range *x.Referrers() {
			switch y := ref.(type) {
			case *ssa.IndexAddr:
				if y.Index == x {
					return true
				}
			case *ssa.Index:
				if y.Index == x {
					return true
				}
			case *ssa.Convert:
				if down(y) {
					return true
				}
			case *ssa.ChangeType:
				if down(y) {
					return true
				}
			}
		}
		return false
	}
	return down(up(v))
}

// allReturnsAfterEdge: every path that starts by taking edge ed ends in a Return
// whose result idx is the boolean constant want, where a phi result is
// evaluated with the constants it received along that very path.
func allReturnsAfterEdge(ed Edge, idx int, want string) bool {
	type st struct {
		b *ssa.BasicBlock
		f pathFacts
	}
	seen := map[string]bool{}
	ok, nret := true, 0
	var walk func(from, b *ssa.BasicBlock, f pathFacts)
	walk = func(from, b *ssa.BasicBlock, f pathFacts) {
		nf := f.enter(from, b)
		key := fmt.Sprintf("%d|%s", b.Index, nf.key())
		if seen[key] || !ok {
			return
		}
		seen[key] = true
		last := b.Instrs[len(b.Instrs)-1]
		if ret, isRet := last.(*ssa.Return); isRet {
			nret++
			if idx >= len(ret.Results) {
				ok = false
				return
			}
			switch v := ret.Results[idx].(type) {
			case *ssa.Const:
				if v.Value == nil || v.Value.ExactString() != want {
					ok = false
				}
			case *ssa.Phi:
				if nf[v] != want {
					ok = false
				}
			default:
				ok = false
			}
			return
		}
		if _, isPanic := last.(*ssa.Panic); isPanic {
			return
		}
		if d := nf.decide(b); d >= 0 {
			walk(b, b.Succs[d], nf)
			return
		}
		for _, s := range b.Succs {
			walk(b, s, nf)
		}
	}
	walk(ed.From, ed.From.Succs[ed.Succ], pathFacts{})
	return ok && nret > 0
}

// funcValueOf: the function a func-typed argument denotes (a closure, or a plain function literal
// without captures), through type changes.
func funcValueOf(v ssa.Value) *ssa.Function {
	for {
		switch x := v.(type) {
		case *ssa.MakeClosure:
			f, _ := x.Fn.(*ssa.Function)
			return f
		case *ssa.Function:
			return x
		case *ssa.ChangeType:
			v = x.X
			continue
		case *ssa.MakeInterface:
			v = x.X
			continue
		}
		return nil
	}
}
