package main

import (
	"fmt"
	"go/constant"
	"go/token"
	"math/big"
	"strings"

	"golang.org/x/tools/go/ssa"
)

// C18: residue-linear symbolic evaluation (RLIN) of ByzantineMajority /
// ByzantineMinority. With n = 3q + r every value computed by the functions is
// a linear form a*q + b per residue class r, so the functions' closed forms
// are obtained exactly, for every n in [1, 2^64-1].

type lin struct{ a, b *big.Int } // a*q + b

func (l lin) String() string { return fmt.Sprintf("%s*q+%s", l.a, l.b) }

func linC(b int64) lin { return lin{big.NewInt(0), big.NewInt(b)} }

var two64 = new(big.Int).Lsh(big.NewInt(1), 64)

type rclass struct {
	name       string
	r          int64
	qmin, qmax *big.Int
}

func (c rclass) at(l lin, q *big.Int) *big.Int {
	v := new(big.Int).Mul(l.a, q)
	return v.Add(v, l.b)
}

// rng returns min and max of the form over the class range.
func (c rclass) rng(l lin) (lo, hi *big.Int) {
	x, y := c.at(l, c.qmin), c.at(l, c.qmax)
	if x.Cmp(y) <= 0 {
		return x, y
	}
	return y, x
}

type rlinResult struct {
	splitAt  *big.Int // when a comparison is not uniform on the class: first q at which its truth value changes
	ret      *lin
	panics   bool
	err      string
	steps    int
	maxInter *big.Int
}

// rlinEval interprets fn (one uint64 parameter) over class c.
func rlinEval(fn *ssa.Function, c rclass) rlinResult {
	res := rlinResult{maxInter: big.NewInt(0)}
	env := map[ssa.Value]lin{}
	benv := map[ssa.Value]bool{}
	if len(fn.Params) != 1 {
		res.err = "expected exactly one parameter"
		return res
	}
	env[fn.Params[0]] = lin{big.NewInt(3), big.NewInt(c.r)}
	get := func(v ssa.Value) (lin, bool) {
		if k, ok := v.(*ssa.Const); ok {
			if k.Value == nil || k.Value.Kind() != constant.Int {
				return lin{}, false
			}
			bi, ok := new(big.Int).SetString(k.Value.ExactString(), 10)
			if !ok {
				return lin{}, false
			}
			return lin{big.NewInt(0), bi}, true
		}
		l, ok := env[v]
		return l, ok
	}
	checkRange := func(l lin, what string) bool {
		lo, hi := c.rng(l)
		if lo.Sign() < 0 || hi.Cmp(two64) >= 0 {
			res.err = fmt.Sprintf("%s = %s leaves [0,2^64) on class %s (range %s..%s): wraps around", what, l, c.name, lo, hi)
			return false
		}
		if hi.Cmp(res.maxInter) > 0 {
			res.maxInter = hi
		}
		return true
	}
	blk := fn.Blocks[0]
	var prev *ssa.BasicBlock
	for steps := 0; steps < 10000; steps++ {
		var next *ssa.BasicBlock
		for _, in := range blk.Instrs {
			res.steps++
			switch in := in.(type) {
			case *ssa.Phi:
				for i, p := range blk.Preds {
					if p == prev {
						if l, ok := get(in.Edges[i]); ok {
							env[in] = l
						} else if b, ok := benv[in.Edges[i]]; ok {
							benv[in] = b
						} else {
							res.err = "phi of unsupported value at " + in.String()
							return res
						}
					}
				}
			case *ssa.BinOp:
				x, okx := get(in.X)
				y, oky := get(in.Y)
				if !okx || !oky {
					res.err = "unsupported operand in " + in.String()
					return res
				}
				switch in.Op {
				case token.ADD:
					l := lin{new(big.Int).Add(x.a, y.a), new(big.Int).Add(x.b, y.b)}
					if !checkRange(l, in.String()) {
						return res
					}
					env[in] = l
				case token.SUB:
					l := lin{new(big.Int).Sub(x.a, y.a), new(big.Int).Sub(x.b, y.b)}
					if !checkRange(l, in.String()) {
						return res
					}
					env[in] = l
				case token.MUL:
					var k *big.Int
					var o lin
					if x.a.Sign() == 0 {
						k, o = x.b, y
					} else if y.a.Sign() == 0 {
						k, o = y.b, x
					} else {
						res.err = "non-linear product " + in.String()
						return res
					}
					l := lin{new(big.Int).Mul(o.a, k), new(big.Int).Mul(o.b, k)}
					if !checkRange(l, in.String()) {
						return res
					}
					env[in] = l
				case token.QUO, token.REM:
					if y.a.Sign() != 0 || y.b.Sign() <= 0 {
						res.err = "division by non-constant " + in.String()
						return res
					}
					d := y.b
					if new(big.Int).Mod(x.a, d).Sign() != 0 || x.b.Sign() < 0 {
						res.err = fmt.Sprintf("division %s not residue-linear (a=%s not a multiple of %s)", in.String(), x.a, d)
						return res
					}
					if in.Op == token.QUO {
						env[in] = lin{new(big.Int).Quo(x.a, d), new(big.Int).Quo(x.b, d)}
					} else {
						env[in] = lin{big.NewInt(0), new(big.Int).Mod(x.b, d)}
					}
				case token.EQL, token.NEQ, token.LSS, token.LEQ, token.GTR, token.GEQ:
					d := lin{new(big.Int).Sub(x.a, y.a), new(big.Int).Sub(x.b, y.b)}
					lo, hi := c.rng(d)
					var val, decided bool
					switch in.Op {
					case token.EQL, token.NEQ:
						if lo.Sign() == 0 && hi.Sign() == 0 {
							val, decided = true, true
						} else if lo.Sign() > 0 || hi.Sign() < 0 {
							val, decided = false, true
						}
						if in.Op == token.NEQ {
							val = !val
						}
					case token.LSS, token.GEQ:
						if hi.Sign() < 0 {
							val, decided = true, true
						} else if lo.Sign() >= 0 {
							val, decided = false, true
						}
						if in.Op == token.GEQ {
							val = !val
						}
					case token.LEQ, token.GTR:
						if hi.Sign() <= 0 {
							val, decided = true, true
						} else if lo.Sign() > 0 {
							val, decided = false, true
						}
						if in.Op == token.GTR {
							val = !val
						}
					}
					if !decided {
						// a linear form changes sign at most once: find the first q where the truth value
						// differs from the one at qmin and let the caller split the class there
						truthAt := func(q *big.Int) bool {
							v := c.at(d, q)
							switch in.Op {
							case token.EQL:
								return v.Sign() == 0
							case token.NEQ:
								return v.Sign() != 0
							case token.LSS:
								return v.Sign() < 0
							case token.GEQ:
								return v.Sign() >= 0
							case token.LEQ:
								return v.Sign() <= 0
							default:
								return v.Sign() > 0
							}
						}
						if in.Op == token.EQL || in.Op == token.NEQ {
							res.err = fmt.Sprintf("equality %s holds at an isolated point of class %s", in.String(), c.name)
							return res
						}
						t0 := truthAt(c.qmin)
						lo, hi := new(big.Int).Set(c.qmin), new(big.Int).Set(c.qmax)
						for new(big.Int).Sub(hi, lo).Cmp(big.NewInt(1)) > 0 {
							mid := new(big.Int).Add(lo, hi)
							mid.Rsh(mid, 1)
							if truthAt(mid) == t0 {
								lo = mid
							} else {
								hi = mid
							}
						}
						res.splitAt = hi
						return res
					}
					benv[in] = val
				default:
					res.err = "unsupported operator " + in.String()
					return res
				}
			case *ssa.If:
				b, ok := benv[in.Cond]
				if !ok {
					res.err = "branch on unsupported condition " + in.Cond.String()
					return res
				}
				if b {
					next = blk.Succs[0]
				} else {
					next = blk.Succs[1]
				}
			case *ssa.Jump:
				next = blk.Succs[0]
			case *ssa.Return:
				l, ok := get(in.Results[0])
				if !ok {
					res.err = "unsupported return value"
					return res
				}
				res.ret = &l
				return res
			case *ssa.Panic:
				res.panics = true
				return res
			case *ssa.Call, *ssa.MakeInterface, *ssa.DebugRef, *ssa.ChangeInterface:
				// only reachable on the way to a panic (errors.New etc.); the
				// value is not numeric and any numeric use of it is rejected above
			case *ssa.UnOp:
				if in.Op == token.NOT {
					if b, ok := benv[in.X]; ok {
						benv[in] = !b
						continue
					}
				}
				res.err = "unsupported instruction " + in.String()
				return res
			case *ssa.Convert:
				if l, ok := get(in.X); ok {
					env[in] = l
					continue
				}
				res.err = "unsupported conversion " + in.String()
				return res
			default:
				res.err = fmt.Sprintf("unsupported instruction %T %s", in, in.String())
				return res
			}
		}
		if next == nil {
			res.err = "fell off block"
			return res
		}
		prev, blk = blk, next
	}
	res.err = "step limit"
	return res
}

// rlinEvalSplit evaluates fn on class c, splitting the q-range wherever a
// comparison is not uniform; it returns the pieces with their closed forms.
type rlinPiece struct {
	c   rclass
	res rlinResult
}

func rlinEvalSplit(fn *ssa.Function, c rclass, depth int) []rlinPiece {
	res := rlinEval(fn, c)
	if res.splitAt == nil || depth > 6 {
		if res.splitAt != nil {
			res.err = "too many range splits"
		}
		return []rlinPiece{{c, res}}
	}
	left := rclass{c.name, c.r, c.qmin, new(big.Int).Sub(res.splitAt, big.NewInt(1))}
	right := rclass{c.name, c.r, res.splitAt, c.qmax}
	return append(rlinEvalSplit(fn, left, depth+1), rlinEvalSplit(fn, right, depth+1)...)
}

func rclasses() []rclass {
	max := new(big.Int).Sub(two64, big.NewInt(1))
	var out []rclass
	for r := int64(0); r < 3; r++ {
		qmax := new(big.Int).Sub(max, big.NewInt(r))
		qmax.Quo(qmax, big.NewInt(3))
		qmin := big.NewInt(0)
		if r == 0 {
			qmin = big.NewInt(1)
		}
		out = append(out, rclass{fmt.Sprintf("n=3q+%d", r), r, qmin, qmax})
	}
	return out
}

func init() {
	register(&PropMeta{
		ID: "C18", Title: "Byzantine thresholds are exact for every total power", Level: "proof",
		Explanation: "Residue-linear symbolic evaluation of the SSA of tmconsensus.ByzantineMajority and ByzantineMinority: with n = 3q + r every intermediate is a linear form a*q+b per residue class, branches depend only on r, so the closed form of each function is computed exactly for every n in [1, 2^64-1] (endpoints of each class checked with big integers for overflow). The closed forms are compared with the least m such that 3m > 2n (resp. 3m >= n); quorum intersection and non-blocking are inequalities between linear forms checked at the range endpoints (linear forms are monotone). n = 0 is evaluated concretely and must panic. In addition every comparison in production code against a Byzantine* result is checked for >= / < orientation.",
		NotDecided:  "nothing within the statement; users of the thresholds are covered by C01/C06/C08 rules",
		Assumptions: []string{"go/ssa translates the two functions faithfully", "uint64 arithmetic semantics of Go (wrap-around modelled as a failure)"},
		Trusted:     []string{"golang.org/x/tools/go/ssa translation", "the RLIN evaluator in /verif/tool/rules_c18.go (about 250 lines)", "math/big"},
		Run:         runC18,
	})
}

func runC18(r *Run) {
	w := r.W
	r.Rule("C18.1", "RLIN: ByzantineMajority(3q+r) = 2q + {1,1,2}[r] (least m with 3m > 2n) for every class, no intermediate leaves [0,2^64)")
	r.Rule("C18.2", "RLIN: ByzantineMinority(3q+r) = q + {0,1,1}[r] (least m with 3m >= n) for every class, no intermediate leaves [0,2^64)")
	r.Rule("C18.3", "n = 0 panics in both functions")
	r.Rule("C18.4", "minimality and threshold: 3m > 2n and 3(m-1) <= 2n for majority; 3m >= n and 3(m-1) < n for minority, as linear inequalities per class")
	r.Rule("C18.5", "quorum intersection 2*maj - n >= min and non-blocking n - (min-1) >= maj as linear inequalities per class")
	r.Rule("C18.6", "every production comparison against a ByzantineMajority/Minority result is oriented x >= t or x < t (never >, <=, ==)")

	maj := w.Fn("tmconsensus.ByzantineMajority")
	min := w.Fn("tmconsensus.ByzantineMinority")
	if maj == nil || min == nil {
		r.Fail("C18.1", "anchor", "", "tmconsensus.ByzantineMajority/ByzantineMinority not found")
		return
	}
	expMaj := []lin{{big.NewInt(2), big.NewInt(1)}, {big.NewInt(2), big.NewInt(1)}, {big.NewInt(2), big.NewInt(2)}}
	expMin := []lin{{big.NewInt(1), big.NewInt(0)}, {big.NewInt(1), big.NewInt(1)}, {big.NewInt(1), big.NewInt(1)}}
	gotMaj := make([]*lin, 3)
	gotMin := make([]*lin, 3)
	for i, c := range rclasses() {
		for _, t := range []struct {
			rule string
			fn   *ssa.Function
			exp  lin
			got  []*lin
		}{{"C18.1", maj, expMaj[i], gotMaj}, {"C18.2", min, expMin[i], gotMin}} {
			pieces := rlinEvalSplit(t.fn, c, 0)
			con := fmt.Sprintf("%s[%s]", FuncName(t.fn), c.name)
			pos := w.Pos(t.fn.Pos())
			allOK := true
			var dets []string
			for _, pc := range pieces {
				res := pc.res
				rng := fmt.Sprintf("q in [%s,%s]", pc.c.qmin, pc.c.qmax)
				switch {
				case res.err != "":
					allOK = false
					dets = append(dets, rng+": RLIN evaluation failed: "+res.err)
				case res.panics:
					allOK = false
					dets = append(dets, rng+": panics for positive n")
				case res.ret.a.Cmp(t.exp.a) != 0 || res.ret.b.Cmp(t.exp.b) != 0:
					allOK = false
					dets = append(dets, fmt.Sprintf("%s: closed form is %s, required %s", rng, res.ret, t.exp))
				default:
					dets = append(dets, fmt.Sprintf("%s: closed form %s; %d SSA steps; largest intermediate %s < 2^64", rng, res.ret, res.steps, res.maxInter))
				}
			}
			if allOK {
				l := t.exp
				t.got[i] = &l
			}
			r.Check(allOK, t.rule, con, pos, strings.Join(dets, " | "))
		}
	}
	// n = 0
	zero := rclass{"n=0", 0, big.NewInt(0), big.NewInt(0)}
	for _, fn := range []*ssa.Function{maj, min} {
		res := rlinEval(fn, zero)
		r.Check(res.panics && res.err == "", "C18.3", FuncName(fn)+"[n=0]", w.Pos(fn.Pos()), fmt.Sprintf("panics=%v err=%q", res.panics, res.err))
	}
	// inequalities on the computed forms
	for i, c := range rclasses() {
		if gotMaj[i] == nil || gotMin[i] == nil {
			continue
		}
		n := lin{big.NewInt(3), big.NewInt(c.r)}
		mj, mn := *gotMaj[i], *gotMin[i]
		sc := func(l lin, k int64) lin {
			return lin{new(big.Int).Mul(l.a, big.NewInt(k)), new(big.Int).Mul(l.b, big.NewInt(k))}
		}
		sub := func(x, y lin) lin { return lin{new(big.Int).Sub(x.a, y.a), new(big.Int).Sub(x.b, y.b)} }
		add := func(x, y lin) lin { return lin{new(big.Int).Add(x.a, y.a), new(big.Int).Add(x.b, y.b)} }
		pos := func(l lin, strict bool) bool { // l > 0 (strict) or l >= 0 over the class
			lo, _ := c.rng(l)
			if strict {
				return lo.Sign() > 0
			}
			return lo.Sign() >= 0
		}
		type ineq struct {
			rule, name string
			form       lin
			strict     bool
		}
		for _, q := range []ineq{
			{"C18.4", "3*maj > 2n", sub(sc(mj, 3), sc(n, 2)), true},
			{"C18.4", "3*(maj-1) <= 2n", sub(sc(n, 2), sc(sub(mj, linC(1)), 3)), false},
			{"C18.4", "3*min >= n", sub(sc(mn, 3), n), false},
			{"C18.4", "3*(min-1) < n", sub(n, sc(sub(mn, linC(1)), 3)), true},
			{"C18.5", "2*maj - n >= min (two majorities share a minority)", sub(sub(sc(mj, 2), n), mn), false},
			{"C18.5", "n - (min-1) >= maj (below-minority cannot block)", sub(sub(n, sub(mn, linC(1))), mj), false},
			{"C18.5", "min-1 < maj (below-minority is no majority)", sub(mj, sub(mn, linC(1))), true},
			{"C18.5", "maj <= n (a majority is attainable)", sub(n, mj), false},
		} {
			_ = add
			r.Check(pos(q.form, q.strict), q.rule, q.name+"["+c.name+"]", w.Pos(maj.Pos()), fmt.Sprintf("difference form %s over q in [%s,%s]", q.form, c.qmin, c.qmax))
		}
	}
	thresholdOrientation(r, "C18.6")
	// exact thresholds are only as good as the total they are given: a view's available power is the
	// sum over the validator set assigned to that very view (shared with C01.9 / C06.5 / C07.1b)
	availablePowerCoherence(r, "C18.7")
	r.Rule("C18.8", "no hand-derived thresholds: no production comparison has an operand computed by arithmetic over a ByzantineMajority/Minority result (n - maj, min - 1, ...); thresholds are compared as returned")
	derivedThresholds(r, "C18.8")
	r.Expect("C18.1", 3, "three residue classes for majority")
	r.Expect("C18.2", 3, "three residue classes for minority")
	r.Expect("C18.6", 15, "threshold comparison sites in production code")
}

// thresholdOrientation checks every comparison whose operand is a Byzantine*
// result (C01.8 / C18.6).
func thresholdOrientation(r *Run, rule string) {
	w := r.W
	for _, fn := range w.ProdFuncs() {
		a := w.A(fn)
		n := 0
		a.Instrs(func(in ssa.Instruction) {
			bo, ok := in.(*ssa.BinOp)
			if !ok {
				return
			}
			switch bo.Op {
			case token.EQL, token.NEQ, token.LSS, token.LEQ, token.GTR, token.GEQ:
			default:
				return
			}
			isT := func(v ssa.Value) bool {
				s := a.sh.Of(v)
				return s.K == "call" && (s.S == "tmconsensus.ByzantineMajority" || s.S == "tmconsensus.ByzantineMinority")
			}
			var ok2 bool
			var form string
			switch {
			case isT(bo.Y) && !isT(bo.X):
				ok2 = bo.Op == token.GEQ || bo.Op == token.LSS
				form = "x " + bo.Op.String() + " threshold"
			case isT(bo.X) && !isT(bo.Y):
				ok2 = bo.Op == token.LEQ || bo.Op == token.GTR
				form = "threshold " + bo.Op.String() + " x"
			default:
				return
			}
			n++
			r.Check(ok2, rule, fmt.Sprintf("%s#cmp%d", FuncName(fn), n), w.InstrPos(bo), form+": "+a.sh.Of(bo).String())
		})
	}
}
