package main

import (
	"encoding/json"
	"fmt"
	"os"
	"runtime/debug"
	"sort"
	"strconv"
	"strings"
	"time"

	"golang.org/x/tools/go/ssa"
)

var registry = map[string]*PropMeta{}

func register(m *PropMeta) { registry[m.ID] = m }

func usage() {
	fmt.Fprintln(os.Stderr, `usage:
  gverif check <ID> [quick|thorough]   decide one property on /repo's working tree
  gverif replay <violation.json>       re-run the single obligation of a violation file
  gverif list                          list property checks
  gverif dump <func> [pattern]         debug: print SSA shapes of a function
  gverif selftest <ID|all> [-j N]      mutation self-test of the checker (overlay variants)`)
	os.Exit(2)
}

func main() {
	if len(os.Args) < 2 {
		usage()
	}
	switch os.Args[1] {
	case "list":
		var ids []string
		for id := range registry {
			ids = append(ids, id)
		}
		sort.Strings(ids)
		for _, id := range ids {
			fmt.Println(id, registry[id].Title)
		}
	case "check":
		if len(os.Args) < 3 {
			usage()
		}
		tier := "quick"
		if len(os.Args) > 3 {
			tier = os.Args[3]
		}
		if t := os.Getenv("VERIF_TIER"); t != "" && len(os.Args) <= 3 {
			tier = t
		}
		os.Exit(runCheck(os.Args[2], tier))
	case "replay":
		if len(os.Args) < 3 {
			usage()
		}
		b, err := os.ReadFile(os.Args[2])
		if err != nil {
			fmt.Println("UNDECIDED: cannot read", os.Args[2], err)
			os.Exit(2)
		}
		var v struct{ Property, Key string }
		if err := json.Unmarshal(b, &v); err != nil || v.Property == "" {
			fmt.Println("UNDECIDED: not a violation file:", os.Args[2])
			os.Exit(2)
		}
		os.Setenv("GVERIF_ONLY_KEY", v.Key)
		os.Exit(runCheck(v.Property, "quick"))
	case "dump":
		if len(os.Args) < 3 {
			usage()
		}
		dump(os.Args[2:])
	case "census":
		w, err := LoadWorld("", nil)
		if err != nil {
			fmt.Println(err)
			os.Exit(2)
		}
		dumpCensus(w)
	case "funcs":
		w, err := LoadWorld("", nil)
		if err != nil {
			fmt.Println(err)
			os.Exit(2)
		}
		var names []string
		for _, f := range w.AllFuncs {
			if f.Parent() == nil {
				names = append(names, FuncName(f))
			}
		}
		sort.Strings(names)
		for _, n := range names {
			fmt.Println(n)
		}
	case "selftest":
		os.Exit(selftestMain(os.Args[2:]))
	case "mutant":
		os.Exit(mutantChild(os.Args[2:]))
	case "matrix":
		os.Exit(matrixMain(os.Args[2:]))
	default:
		usage()
	}
}

func runCheck(id, tier string) (code int) {
	t0 := time.Now()
	meta, ok := registry[id]
	if !ok {
		fmt.Printf("UNDECIDED: no check for property %s\n", id)
		return 2
	}
	if tier != "quick" && tier != "thorough" {
		fmt.Printf("UNDECIDED: unknown tier %q\n", tier)
		return 2
	}
	seed := 0
	if s := os.Getenv("VERIF_SEED"); s != "" {
		seed, _ = strconv.Atoi(s)
	}
	defer func() {
		if e := recover(); e != nil {
			fmt.Printf("UNDECIDED: analyser panic in %s: %v\n%s\n", id, e, debug.Stack())
			code = 2
		}
	}()
	configs := []string{""}
	if tier == "thorough" {
		configs = []string{"", "debug"}
	}
	run := &Run{Prop: id, Tier: tier}
	var names []string
	for _, tags := range configs {
		w, err := LoadWorld(tags, nil)
		if err != nil {
			fmt.Printf("UNDECIDED: cannot load /repo (tags=%q): %v\n", tags, err)
			return 2
		}
		run.W = w
		run.config = "default"
		if tags != "" {
			run.config = "tags=" + tags
		}
		names = append(names, run.config)
		before := len(run.Obls)
		meta.Run(run)
		if tags != "" {
			// obligations from the second configuration that duplicate a key already
			// decided identically are dropped; differing ones are kept
			firstSt := map[string]Status{}
			for _, o := range run.Obls[:before] {
				firstSt[o.Key()] = o.Status
			}
			kept := run.Obls[:before]
			dup := 0
			for _, o := range run.Obls[before:] {
				if st, ok := firstSt[o.Key()]; ok && st == o.Status {
					dup++
					continue
				}
				kept = append(kept, o)
			}
			run.Obls = kept
			run.Note("configuration %s: %d obligations identical to default, %d differing", run.config, dup, len(kept)-before)
		}
	}
	if tier == "thorough" {
		// the thorough tier also runs the checker's own sensitivity test for this property
		res, _ := selftestRun(id, 3)
		killed, skipped := 0, 0
		for _, mr := range res {
			switch mr.status {
			case "killed":
				killed++
			case "skipped":
				skipped++
				run.Note("self-test operator %s skipped: %s", mr.m.Name, mr.detail)
			default:
				run.Undecided("selftest", mr.m.Name, mr.m.File, "checker self-test: overlay mutant "+mr.status+" — "+mr.detail)
			}
		}
		run.Note("checker self-test for %s: %d overlay mutants, %d reported by the expected rule, %d skipped", id, len(res), killed, skipped)
		run.selftest = map[string]any{"mutants": len(res), "killed": killed, "skipped": skipped}
	}
	return run.Finish(t0, seed, *meta, names)
}

// matrixMain: load the tree once and run every property's rules; print the new
// failures per property (no evidence is written). Used to see which checks a
// scratch change trips.
func matrixMain(args []string) int {
	w, err := LoadWorld("", nil)
	if err != nil {
		fmt.Println("UNDECIDED: cannot load:", err)
		return 2
	}
	var ids []string
	for id := range registry {
		if len(args) == 0 {
			ids = append(ids, id)
		}
	}
	ids = append(ids, args...)
	sort.Strings(ids)
	code := 0
	for _, id := range ids {
		meta := registry[id]
		if meta == nil {
			continue
		}
		run := &Run{Prop: id, Tier: "quick", W: w, config: "default"}
		func() {
			defer func() {
				if e := recover(); e != nil {
					run.Fail("analyser", "panic", "", fmt.Sprint(e))
				}
			}()
			meta.Run(run)
		}()
		nf := run.newFailures()
		fmt.Printf("%s obligations=%d new-failures=%d\n", id, len(run.Obls), len(nf))
		for _, k := range nf {
			fmt.Printf("  %s FAIL %s\n", id, k)
			code = 1
		}
	}
	if p := os.Getenv("GVERIF_MAPUPDATES"); p != "" {
		dumpMapUpdates(w, p)
	}
	if os.Getenv("GVERIF_UNTOUCHED") != "" {
		// blind-spot census (a reading aid, not a check): production functions never looked up by name
		var out []string
		for n, f := range w.Funcs {
			if w.named[n] || !w.IsProd(f) || f.Parent() != nil {
				continue
			}
			ni := 0
			for _, b := range f.Blocks {
				ni += len(b.Instrs)
			}
			if ni >= 25 {
				out = append(out, fmt.Sprintf("%5d %s %s", ni, n, w.Pos(f.Pos())))
			}
		}
		sort.Strings(out)
		for _, l := range out {
			fmt.Println("UNTOUCHED", l)
		}
	}
	return code
}

func dump(args []string) {
	w, err := LoadWorld(os.Getenv("GVERIF_TAGS"), nil)
	if err != nil {
		fmt.Println(err)
		os.Exit(2)
	}
	name := args[0]
	var fns []*ssa.Function
	for n, f := range w.Funcs {
		if n == name || strings.HasSuffix(n, "."+name) {
			fns = append(fns, f)
		}
	}
	if len(fns) == 0 {
		fmt.Println("no such function; candidates:")
		for n := range w.Funcs {
			if strings.Contains(n, name) {
				fmt.Println("  ", n)
			}
		}
		os.Exit(1)
	}
	for _, fn := range fns {
		fmt.Println("FUNC", FuncName(fn), w.Pos(fn.Pos()))
		a := w.A(fn)
		for _, b := range fn.Blocks {
			fmt.Printf(" b%d (%s) preds=%v succs=%v\n", b.Index, b.Comment, blockIdx(b.Preds), blockIdx(b.Succs))
			for _, in := range b.Instrs {
				switch in := in.(type) {
				case *ssa.If:
					fmt.Printf("    if %s\n", NormPred(a.sh.Of(in.Cond)))
				case *ssa.Return:
					var rs []string
					for _, r := range in.Results {
						rs = append(rs, a.sh.Of(r).String())
					}
					fmt.Printf("    return %s\n", strings.Join(rs, ", "))
				case *ssa.Store:
					fmt.Printf("    store %s <- %s\n", a.sh.Of(in.Addr), a.sh.Of(in.Val))
				case *ssa.MapUpdate:
					fmt.Printf("    mapupdate %s[%s] <- %s\n", a.sh.Of(in.Map), a.sh.Of(in.Key), a.sh.Of(in.Value))
				case *ssa.Send:
					fmt.Printf("    send %s <- %s\n", a.sh.Of(in.Chan), a.sh.Of(in.X))
				case *ssa.Panic:
					fmt.Printf("    panic %s\n", a.sh.Of(in.X))
				case *ssa.Call:
					fmt.Printf("    call %s   [%s]\n", a.sh.Of(in), w.InstrPos(in))
				case *ssa.Defer:
					fmt.Printf("    defer %s\n", a.sh.callShape(&in.Call))
				case *ssa.Go:
					fmt.Printf("    go %s\n", a.sh.callShape(&in.Call))
				case *ssa.Select:
					for k, st := range in.States {
						fmt.Printf("    select[%d] dir=%v chan=%s send=%v\n", k, st.Dir, a.sh.Of(st.Chan), st.Send != nil)
					}
				}
			}
		}
	}
}

func blockIdx(bs []*ssa.BasicBlock) []int {
	var out []int
	for _, b := range bs {
		out = append(out, b.Index)
	}
	return out
}
