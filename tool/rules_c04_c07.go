package main

import (
	"fmt"
	"strconv"
	"strings"

	"golang.org/x/tools/go/ssa"
)

func init() {
	register(&PropMeta{
		ID: "C04", Title: "A node's committed chain is immutable, gap-free and hash-linked",
		Explanation: "Decides the single-owner, forward-by-one structure of the mirror's position: heights and rounds of the three kernel views are assigned only by the voting->committing shift (committing := old voting wholesale; new voting and next-round height = old voting height + 1, rounds 0 and 1) and by the voting/next-round swap (exchange + next round = voting round + 1), besides start-up; FindView hands out a view only under equality of height and round with that view and classifies everything older as before-committing/orphaned, which the vote adders answer without touching state; the persisted position is written by two functions only, with arguments (voting h, voting r, committing h, committing r) in that order, and, on the commit path, only after the committed header was saved successfully (so no gap can be recorded); replay is accepted only at the voting height; and every field of the kernel's check response that the kernel fills is consumed by the mirror (a written-but-never-read PrevBlockHash means the predecessor hash is not compared).",
		NotDecided:  "that the in-memory header store keeps what it was given (it overwrites silently by design); restart behaviour (C10); hash-linkage beyond the existence of the comparison",
		Assumptions: []string{"kernel state is confined to the kernel goroutine (single owner)"},
		Run:         runC04,
	})
	register(&PropMeta{
		ID: "C07", Title: "The validator set used at each height is the one the chain committed",
		Explanation: "Decides where validator sets come from: the kernel views' ValidatorSet fields are assigned only in the shift (from the NextValidatorSet of the very header being committed — checked at the call site), the swap, and the start-up loaders (genesis set, or NextValidatorSet of a stored committed header); a view's available power is derived from the same set; the state machine's CurValSet / PrevValSet / PrevFinNextValSet rotate only in CycleFinalization with the documented value flow, the finalized set comes only from the driver's finalization response, proposals offered to the consensus strategy pass the filter comparing both validator sets and the app state hash with the state machine's own, and the header the state machine proposes carries those same two sets. It also checks whether acceptance of a proposed header compares the validator lists it carries with the hashes the block hash covers.",
		NotDecided:  "application behaviour; which of two same-signature copies of a proposal arrives first",
		Assumptions: []string{"HashScheme.Block covers the validator hashes (C15)"},
		Run:         runC07,
	})
}

func runC04(r *Run) {
	w := r.W
	fns := tmiFuncs(w)
	r.Rule("C04.1", "WMW/PROV: heights and rounds of kState views change only in ShiftVotingToCommitting (committing := voting; new heights = voting height + 1; rounds 0/1) and incrementVotingRound (swap; next round = voting round + 1), besides start-up")
	r.Rule("C04.3", "WMC/PROV: MirrorStore.SetNetworkHeightRound is called only at start-up and from the observer update, with (voting h, voting r, committing h, committing r) of the kernel state")
	r.Rule("C04.4", "FindView returns a view only under height/round equality with it; before-committing/orphaned lookups leave state untouched in the vote adders")
	r.Rule("C04.5", "replay is accepted only at the voting height (see C01.4)")
	r.Rule("C04.6", "every field the kernel fills in a response struct is read by the consumer (a write-only PrevBlockHash means the predecessor hash is never compared)")

	// ---- C04.1
	allowedHR := map[string]bool{"tmi.kState.ShiftVotingToCommitting": true, "tmi.kState.incrementVotingRound": true, "tmi.NewKernel": true,
		"tmi.Kernel.loadInitialCommittingView": true, "tmi.Kernel.loadInitialVotingView": true}
	for _, view := range []string{"Committing", "Voting", "NextRound"} {
		for _, fw := range w.FieldWrites(fns, "tmi.kState", view) {
			if fw.Kind != "store" {
				continue
			}
			last := fw.Path[len(fw.Path)-1].Field
			whole := len(fw.Path) == 1 || (len(fw.Path) == 2 && last == "RoundView")
			if !(whole || last == "Height" || last == "Round") {
				continue
			}
			con := fmt.Sprintf("write(%s)@%s", pathString(fw.Path), FuncName(fw.Fn))
			r.Check(allowedHR[FuncName(fw.Fn)], "C04.1", con, w.InstrPos(fw.Instr), "position of a kernel view assigned here")
		}
	}
	// pointer receivers that may reset heights: Reset / ResetForSameHeight may be applied only to NextRound
	for _, c := range w.CallersOf(fns, "tmconsensus.VersionedRoundView.Reset", "tmconsensus.VersionedRoundView.ResetForSameHeight", "tmconsensus.RoundView.Reset", "tmconsensus.RoundView.ResetForSameHeight") {
		a := w.A(c.Fn)
		recv := a.sh.Of(CallArg(c.Instr, 0)).String()
		if !strings.Contains(recv, ".Voting") && !strings.Contains(recv, ".Committing") && !strings.Contains(recv, ".NextRound") {
			continue
		}
		r.Check(strings.HasSuffix(recv, ".NextRound") && allowedHR[FuncName(c.Fn)], "C04.1", "reset("+recv+")@"+FuncName(c.Fn), w.InstrPos(c.Instr), "only the next-round view may be reset, and only by the shift / swap")
	}
	if fn := w.Fn("tmi.kState.ShiftVotingToCommitting"); fn != nil {
		a := w.AU(fn)
		got := map[string]string{}
		a.Instrs(func(in ssa.Instruction) {
			st, ok := in.(*ssa.Store)
			if !ok {
				return
			}
			addr := a.sh.Of(st.Addr).String()
			val := a.sh.Of(st.Val)
			switch addr {
			case "p0.Committing":
				got["Committing"] = val.String()
			case "p0.Voting":
				if b, ok := Match("lit:tmconsensus.VersionedRoundView{RoundView:lit:tmconsensus.RoundView{Height:$h,Round:$r,$...},$...}", val); ok {
					got["Voting.Height"] = b["$h"].String()
					got["Voting.Round"] = b["$r"].String()
				}
			case "p0.NextRound.RoundView.Height":
				got["NextRound.Height"] = val.String()
			case "p0.NextRound.RoundView.Round":
				got["NextRound.Round"] = val.String()
			}
		})
		want := map[string]string{"Committing": "p0.Voting", "Voting.Height": "(p0.Voting.RoundView.Height + 1)", "Voting.Round": "0", "NextRound.Height": "(p0.Voting.RoundView.Height + 1)", "NextRound.Round": "1"}
		ok := true
		for k, v := range want {
			if got[k] != v {
				ok = false
			}
		}
		r.Check(ok, "C04.1", "tmi.kState.ShiftVotingToCommitting(values)", w.Pos(fn.Pos()), fmt.Sprintf("assigned positions: %v", got))
		// the committing assignment precedes the new voting assignment (the +1 is taken from the old voting height)
	} else {
		r.Fail("C04.1", "ShiftVotingToCommitting", "", "function not found")
	}
	if fn := w.Fn("tmi.kState.incrementVotingRound"); fn != nil {
		a := w.AU(fn)
		got := map[string]string{}
		a.Instrs(func(in ssa.Instruction) {
			if st, ok := in.(*ssa.Store); ok {
				got[a.sh.Of(st.Addr).String()] = a.sh.Of(st.Val).String()
			}
		})
		ok := got["p0.Voting"] == "p0.NextRound" && got["p0.NextRound"] == "p0.Voting" && got["p0.NextRound.RoundView.Round"] == "(p0.Voting.RoundView.Round + 1)" && len(got) == 3
		r.Check(ok, "C04.1", "tmi.kState.incrementVotingRound(values)", w.Pos(fn.Pos()), fmt.Sprintf("assignments: %v", got))
	}
	r.Rule("C04.10", "every kernel call that moves the voting position (shift, round advance, round jump) is followed by the observer update persisting it on every success path, so the stored position never lags the live one (a restart would move the voting position backwards)")
	positionPersistedAfterMove(r, "C04.10")
	r.Expect("C04.1", 8, "position writers")

	// ---- C04.3
	prod := w.ProdFuncs()
	for _, c := range w.CallersOf(prod, "tmstore.MirrorStore.SetNetworkHeightRound") {
		a := w.A(c.Fn)
		fnn := FuncName(c.Fn)
		con := "caller(SetNetworkHeightRound)@" + fnn
		switch fnn {
		case "tmi.Kernel.updateObservers":
			var args []string
			for i := 2; i <= 5; i++ {
				args = append(args, a.sh.Of(CallArg(c.Instr, i)).String())
			}
			want := "p2.Voting.RoundView.Height,p2.Voting.RoundView.Round,p2.Committing.RoundView.Height,p2.Committing.RoundView.Round"
			r.Check(strings.Join(args, ",") == want, "C04.3", con, w.InstrPos(c.Instr), "arguments: "+strings.Join(args, ","))
		case "tmi.NewKernel":
			e, _ := a.IfEdges("($err == %tmstore.ErrStoreUninitialized)", true, func(b Bind) bool { return strings.Contains(b["$err"].String(), "NetworkHeightRound") })
			r.Check(len(e) > 0 && a.EveryPathTakes(c.Instr, e), "C04.3", con, w.InstrPos(c.Instr), "start-up writes the initial position only when the store is uninitialised")
		default:
			r.Fail("C04.3", con, w.InstrPos(c.Instr), "unexpected writer of the persisted network position")
		}
	}
	r.Expect("C04.3", 2, "position persisters")
	// the shipped mirror store records the position it is given. The kernel only logs a failed
	// write and carries on, so a refused write silently leaves the persisted position behind (a
	// restart then re-opens a committed height). A refusal is therefore tolerated only for a write
	// that really moves a position backwards: new height below the stored one, or equal height and
	// lower round (lexicographic; `>=` in place of `==` refuses every height committed in a lower
	// round than the one before).
	if fn := w.Fn("tmmemstore.MirrorStore.SetNetworkHeightRound"); fn != nil {
		a := w.A(fn)
		pairs := [][4]string{{"p2", "p0.votingHeight", "p3", "p0.votingRound"}, {"p4", "p0.committingHeight", "p5", "p0.committingRound"}}
		n, okAll := 0, true
		for _, ret := range a.Returns() {
			if a.sh.Of(ret.Results[0]).String() == "nil" {
				continue
			}
			n++
			justified := false
			for _, pr := range pairs {
				lowerH, _ := a.IfEdges("("+pr[0]+" < "+pr[1]+")", true, nil)
				sameH, _ := a.IfEdges("("+pr[0]+" == "+pr[1]+")", true, nil)
				lowerR, _ := a.IfEdges("("+pr[2]+" < "+pr[3]+")", true, nil)
				// every path to the refusal: lower height, or (same height and lower round)
				if (len(lowerH) > 0 || (len(sameH) > 0 && len(lowerR) > 0)) && a.EveryPathTakes(ret, lowerH, sameH) && a.EveryPathTakes(ret, lowerH, lowerR) {
					justified = true
				}
			}
			if !justified {
				okAll = false
			}
		}
		stores := map[string]bool{}
		a.Instrs(func(in ssa.Instruction) {
			if st, ok := in.(*ssa.Store); ok {
				stores[a.sh.Of(st.Addr).String()+"<-"+a.sh.Of(st.Val).String()] = true
			}
		})
		wired := stores["p0.votingHeight<-p2"] && stores["p0.votingRound<-p3"] && stores["p0.committingHeight<-p4"] && stores["p0.committingRound<-p5"]
		r.Check(okAll && wired, "C04.3", "tmmemstore.MirrorStore.SetNetworkHeightRound(records)", w.Pos(fn.Pos()), fmt.Sprintf("stores the four values given; %d refusing return(s), each only for a position that really moves backwards", n))
	} else {
		r.Fail("C04.3", "tmmemstore.MirrorStore.SetNetworkHeightRound", "", "not found")
	}

	// ---- C04.4
	if fn := w.Fn("tmi.kState.FindView"); fn != nil {
		a := w.AU(fn)
		for i, ret := range a.Returns() {
			v := a.sh.Of(ret.Results[0]).String()
			st := a.sh.Of(ret.Results[2]).String()
			con := fmt.Sprintf("tmi.kState.FindView#return%d(%s)", i+1, st)
			switch v {
			case "p0.Voting":
				r.RequireGuards(a, "C04.4", con, ret, G{Name: "height", Pattern: "(p1 == p0.Voting.RoundView.Height)", Holds: true}, G{Name: "round", Pattern: "(p2 == p0.Voting.RoundView.Round)", Holds: true})
			case "p0.NextRound":
				r.RequireGuards(a, "C04.4", con, ret, G{Name: "height", Pattern: "(p1 == p0.Voting.RoundView.Height)", Holds: true}, G{Name: "round", Pattern: "(p2 == (p0.Voting.RoundView.Round + 1))", Holds: true})
			case "p0.Committing":
				r.RequireGuards(a, "C04.4", con, ret, G{Name: "height", Pattern: "(p1 == p0.Committing.RoundView.Height)", Holds: true}, G{Name: "round", Pattern: "(p2 == p0.Committing.RoundView.Round)", Holds: true})
			case "nil":
				r.Check(st != "%tmi.ViewFound", "C04.4", con, w.InstrPos(ret), "no view is reported found without a view")
			default:
				r.Fail("C04.4", con, w.InstrPos(ret), "FindView hands out something that is not one of the three views: "+v)
			}
		}
	} else {
		r.Fail("C04.4", "FindView", "", "function not found")
	}
	for _, name := range []string{"tmi.Kernel.addPrevote", "tmi.Kernel.addPrecommit"} {
		fn := w.Fn(name)
		if fn == nil {
			continue
		}
		a := w.AU(fn)
		found, _ := a.IfEdges("(@tmi.kState.FindView($...)#2 == %tmi.ViewFound)", true, nil)
		ord := Ord{}
		a.Instrs(func(in ssa.Instruction) {
			if up, ok := in.(*ssa.MapUpdate); ok {
				m := a.sh.Of(up.Map).String()
				if strings.Contains(m, "Proofs") || strings.Contains(m, "BlockVersions") {
					r.Check(len(found) > 0 && a.EveryPathTakes(in, found), "C04.4", ord.Next(name+"#mutation"), w.InstrPos(in), "view state is touched only when the lookup reported ViewFound")
				}
			}
		})
	}
	r.Expect("C04.4", 8, "view lookup guards")

	// ---- C04.5
	for _, fn := range fns {
		if fn.Name() != "handleReplayedHeader" {
			continue
		}
		a := w.A(fn)
		n := 0
		a.Instrs(func(in ssa.Instruction) {
			if up, ok := in.(*ssa.MapUpdate); ok && strings.HasSuffix(a.sh.Of(up.Map).String(), ".Voting.RoundView.PrecommitProofs") {
				n++
				r.RequireGuards(a, "C04.5", fmt.Sprintf("%s#store%d", FuncName(fn), n), in, G{Name: "height", Pattern: "(p3.Height == p2.Voting.RoundView.Height)", Holds: true})
			}
		})
	}
	r.Expect("C04.5", 1, "replay height guard")

	// ---- C04.6 predecessor hash comparison
	if fn := w.Fn("tmmirror.Mirror.HandleProposedHeader"); fn != nil {
		a := w.AU(fn)
		cmp1, _ := a.IfEdges("@bytes.Equal($x,$y)", true, func(b Bind) bool {
			s := b["$x"].String() + "|" + b["$y"].String()
			return strings.Contains(s, "p2.Header.PrevBlockHash") && strings.Contains(s, ".PrevBlockHash") && strings.Count(s, "PrevBlockHash") >= 2 && strings.Contains(s, "PHCheck")
		})
		writes := 0
		for _, fw := range w.FieldWrites(prod, "tmi.PHCheckResponse", "PrevBlockHash") {
			if fw.Kind == "store" {
				writes++
			}
		}
		reads := fieldReads(w, prod, "tmi.PHCheckResponse", "PrevBlockHash")
		accepts := a.ReturnsOf(0, "%tmconsensus.HandleProposedHeaderAccepted")
		ok := len(cmp1) > 0 && len(accepts) > 0
		for _, t := range accepts {
			below, _ := a.IfEdges("(p0.initialHeight < p2.Header.Height)", false, nil)
			if !a.EveryPathTakes(t, cmp1, below) {
				ok = false
			}
		}
		r.Check(ok, "C04.6", "tmmirror.Mirror.HandleProposedHeader(prev-block-hash)", w.Pos(fn.Pos()),
			fmt.Sprintf("acceptance of a proposed header above the initial height must compare its PrevBlockHash with the hash of the header the kernel is committing; the kernel fills PHCheckResponse.PrevBlockHash at %d site(s) and it is read at %d", writes, reads))
	}
	r.Expect("C04.6", 1, "predecessor hash comparison")

	commitPathOrder(r, "C04.7")
	// hash linkage currently rests only on the previous-commit certificate being counted for the
	// header's own PrevBlockHash (D12): those guards are C01.5
	r.Borrow(runC01, "C01", "C01.5", "C04.8", "acceptance of a proposed header counts the previous commit certificate for the header's own PrevBlockHash under the kernel-supplied previous validator set")
}

func runC07(r *Run) {
	w := r.W
	fns := tmiFuncs(w)
	r.Rule("C07.1", "WMW/PROV: kernel views' ValidatorSet is assigned only from the committed header's NextValidatorSet (shift), by the swap, or at start-up from genesis / NextValidatorSet of the stored committed header; available power follows the same set")
	r.Rule("C07.2", "acceptance of a proposed header compares the validator lists it carries with the validator hashes covered by the block hash")
	r.Rule("C07.3", "state machine: CurValSet/PrevValSet/PrevFinNextValSet rotate only in CycleFinalization (new Cur = old PrevFinNext, new Prev = old Cur, new PrevFinNext = Finalized); FinalizedValSet comes only from the finalization response")
	r.Rule("C07.4", "proposals reach the consensus strategy only through the filter that compares ValidatorSet, NextValidatorSet and the previous app state hash with the state machine's; the proposed header is built from the same fields")

	// ---- C07.1
	for _, view := range []string{"Voting", "NextRound", "Committing"} {
		for _, fw := range w.FieldWrites(fns, "tmi.kState", view) {
			if fw.Kind != "store" || fw.Path[len(fw.Path)-1].Field != "ValidatorSet" {
				continue
			}
			// judged in the terms of the function that decides the commit: the shift helper has a single
			// caller, so what it stores is what that caller hands it (whatever the helper's signature)
			fnn := FuncName(fw.Fn)
			con := fmt.Sprintf("write(%s)@%s", pathString(fw.Path), fnn)
			owner := w.Owner(fw.Fn)
			val := w.AU(owner).sh.Of(fw.Val)
			ok := fnn == "tmi.kState.ShiftVotingToCommitting" && isCommittedNextValSet(val)
			if !ok && fnn == "tmi.kState.ShiftVotingToCommitting" && owner == fw.Fn {
				// several callers: the value is a parameter (or a field of one); every caller must pass the right set
				if root, rest, isPar := paramRooted(val); isPar {
					ok = true
					callers := w.CallersOf(w.ProdFuncs(), fnn)
					for _, cs := range callers {
						arg := w.AU(w.Owner(cs.Fn)).sh.Of(CallArg(cs.Instr, root))
						for _, f := range rest {
							arg = mkFld(arg, f)
						}
						if !isCommittedNextValSet(arg) {
							ok = false
						}
					}
					ok = ok && len(callers) > 0
				}
			}
			r.Check(ok, "C07.1", con, w.InstrPos(fw.Instr), "validator set of a kernel view assigned from "+truncate(val.String(), 160))
		}
	}
	// shift argument (same obligation as C01.2 argument): every validator set handed to the shift
	for _, cs := range w.CallersOf(w.ProdFuncs(), "tmi.kState.ShiftVotingToCommitting") {
		a := w.AU(w.Owner(cs.Fn))
		n, ok := 0, true
		var shown []string
		for i := 1; i < len(callCommon(cs.Instr).Args); i++ {
			arg := a.sh.Of(CallArg(cs.Instr, i))
			var sets []*Shape
			if arg.K == "lit" {
				for k, f := range arg.F {
					if f == "ValidatorSet" {
						sets = append(sets, arg.A[k])
					}
				}
			} else if TypeName(callCommon(cs.Instr).Args[i].Type()) == "tmconsensus.ValidatorSet" {
				sets = append(sets, arg)
			}
			for _, vs := range sets {
				n++
				shown = append(shown, truncate(vs.String(), 120))
				if !isCommittedNextValSet(vs) {
					ok = false
				}
			}
		}
		r.Check(ok && n > 0, "C07.1", FuncName(cs.Fn)+"#shift(next-validators)", w.InstrPos(cs.Instr),
			"the set for the next height is the NextValidatorSet of the very header being committed: "+strings.Join(shown, " ; "))
	}
	// start-up loaders
	for _, l := range []struct{ fn, want string }{
		{"tmi.Kernel.loadInitialCommittingView", "NextValidatorSet"},
		{"tmi.Kernel.loadInitialVotingView", "NextValidatorSet"},
	} {
		fn := w.Fn(l.fn)
		if fn == nil {
			r.Fail("C07.1", l.fn, "", "function not found")
			continue
		}
		a := w.AU(fn)
		for i, c := range a.CallsTo("tmi.Kernel.loadInitialView") {
			// the validator set handed to the loader, wherever it sits in the call
			sets := argsOfType(a, c, "tmconsensus.ValidatorSet")
			var alts []*Shape
			for _, vs := range sets {
				if vs.K == "phi" {
					alts = append(alts, vs.A...)
				} else {
					alts = append(alts, vs)
				}
			}
			if len(alts) == 0 {
				alts = []*Shape{atom("unk", "no validator set argument")}
			}
			ok := true
			var bad []string
			for _, alt := range alts {
				s := alt.String()
				switch {
				case s == "p0.initialValSet":
				case strings.HasSuffix(s, ".Header.NextValidatorSet") || strings.HasSuffix(s, ".CommittingHeader.NextValidatorSet"):
				default:
					ok = false
					bad = append(bad, s)
				}
			}
			r.Check(ok, "C07.1", fmt.Sprintf("%s#load%d", l.fn, i+1), w.InstrPos(c),
				"a start-up view must use the genesis set or the NextValidatorSet of the header committed just below it (the live path uses NextValidatorSet); offending source: "+strings.Join(bad, " | "))
		}
	}
	availablePowerCoherence(r, "C07.1b")
	r.Expect("C07.1", 5, "validator set sources")

	// ---- C07.2
	if fn := w.Fn("tmmirror.Mirror.HandleProposedHeader"); fn != nil {
		a := w.AU(fn)
		var n int
		a.Instrs(func(in ssa.Instruction) {
			c := callCommon(in)
			if c == nil {
				return
			}
			_, cn := calleeName(c)
			if cn == "tmconsensus.HashScheme.PubKeys" || cn == "tmconsensus.HashScheme.VotePowers" || cn == "tmconsensus.NewValidatorSet" {
				n++
			}
		})
		r.Check(n >= 2, "C07.2", "tmmirror.Mirror.HandleProposedHeader(validator-lists)", w.Pos(fn.Pos()),
			"the block hash covers only the validator hashes; nothing recomputes HashScheme.PubKeys/VotePowers over the ValidatorSet and NextValidatorSet lists carried by the proposal, so a copy with altered lists but intact hashes and signature is accepted")
	}

	// ---- C07.3
	if fn := w.Fn("tsi.RoundLifecycle.CycleFinalization"); fn != nil {
		a := w.AU(fn)
		got := map[string]string{}
		a.Instrs(func(in ssa.Instruction) {
			if st, ok := in.(*ssa.Store); ok {
				addr := a.sh.Of(st.Addr).String()
				if strings.HasPrefix(addr, "p0.") {
					got[strings.TrimPrefix(addr, "p0.")] = a.sh.Of(st.Val).String()
				}
			}
		})
		want := map[string]string{
			"PrevFinNextValSet": "p0.FinalizedValSet", "PrevValSet": "p0.CurValSet", "CurValSet": "p0.PrevFinNextValSet",
			"PrevFinAppStateHash": "p0.FinalizedAppStateHash", "PrevBlockHash": "p0.FinalizedBlockHash",
			// the finalized slot is emptied: "no finalization yet for the new height" is tested by its emptiness
			"FinalizedValSet": "zero:tmconsensus.ValidatorSet", "FinalizedAppStateHash": `""`, "FinalizedBlockHash": `""`,
		}
		ok := true
		for k, v := range want {
			if got[k] != v {
				ok = false
			}
		}
		r.Check(ok, "C07.3", "tsi.RoundLifecycle.CycleFinalization", w.Pos(fn.Pos()), fmt.Sprintf("rotation: %v", got))
	} else {
		r.Fail("C07.3", "CycleFinalization", "", "function not found")
	}
	smFns := append(w.FuncsInPkg("tmengine/internal/tmstate"), w.FuncsInPkg("tmstate/internal/tsi")...)
	for _, f := range []string{"CurValSet", "PrevValSet", "PrevFinNextValSet", "FinalizedValSet"} {
		for _, fw := range w.FieldWrites(smFns, "tsi.RoundLifecycle", f) {
			if fw.Kind != "store" {
				continue
			}
			// a helper split off from its only caller counts as that caller (values in the caller's terms)
			owner := w.OwnerIn(fw.Fn, func(n string) bool {
				return n == "tsi.RoundLifecycle.CycleFinalization" || n == "tmstate.StateMachine.sendInitialActionSet" || n == "tmstate.StateMachine.handleFinalization"
			})
			fnn := FuncName(owner)
			a := w.AU(owner)
			val := a.sh.Of(fw.Val).String()
			con := fmt.Sprintf("write(rlc.%s)@%s", f, FuncName(fw.Fn))
			ok := false
			switch {
			case fnn == "tsi.RoundLifecycle.CycleFinalization":
				ok = true
			case fnn == "tmstate.StateMachine.sendInitialActionSet" && f != "FinalizedValSet":
				ok = strings.Contains(val, "LoadFinalizationByHeight") || strings.Contains(val, ".genesis.ValidatorSet") || strings.Contains(val, "CurValSet")
			case fnn == "tmstate.StateMachine.handleFinalization" && f == "FinalizedValSet":
				ok = strings.HasPrefix(val, "@tmconsensus.NewValidatorSet(p3.Validators,")
			}
			r.Check(ok, "C07.3", con, w.InstrPos(fw.Instr), "assigned "+truncate(val, 140))
		}
	}
	// start-up heights: Cur from h-2, Prev from h-3, PrevFinNext from h-1
	if fn := w.Fn("tmstate.StateMachine.sendInitialActionSet"); fn != nil {
		a := w.AU(fn)
		got := map[string][]string{}
		a.Instrs(func(in ssa.Instruction) {
			if st, ok := in.(*ssa.Store); ok {
				lf := lastField(st.Addr)
				for _, f := range []string{"CurValSet", "PrevValSet", "PrevFinNextValSet"} {
					if lf == "tsi.RoundLifecycle."+f {
						got[f] = append(got[f], a.sh.Of(st.Val).String())
					}
				}
			}
		})
		has := func(f, sub string) bool {
			for _, s := range got[f] {
				if strings.Contains(s, sub) {
					return true
				}
			}
			return false
		}
		ok := has("CurValSet", " - 2))#2") && has("PrevValSet", " - 3))#2") && has("PrevFinNextValSet", " - 1))#2")
		// ... h being the height that is entered (the H of the round entrance sent to the mirror), not
		// the stored one: after a stop between saving a finalization and advancing, they differ by one
		var entered *Shape
		for _, sd := range a.Sends() {
			if b, m := Match("lit:tmeil.StateMachineRoundEntrance{H:$h,$...}", a.sh.Of(sd.Val)); m {
				entered = b["$h"]
			}
		}
		if entered == nil {
			ok = false
		} else {
			a.Instrs(func(in ssa.Instruction) {
				st, isSt := in.(*ssa.Store)
				if !isSt {
					return
				}
				lf := lastField(st.Addr)
				if lf != "tsi.RoundLifecycle.CurValSet" && lf != "tsi.RoundLifecycle.PrevValSet" && lf != "tsi.RoundLifecycle.PrevFinNextValSet" {
					return
				}
				if b, m := Match("@@tmstore.FinalizationStore.LoadFinalizationByHeight($s,$c,($m - $k))#2", a.sh.Of(st.Val)); m {
					if b["$m"].String() != entered.String() {
						ok = false
					}
				}
			})
		}
		r.Check(ok, "C07.3", "tmstate.StateMachine.sendInitialActionSet(heights)", w.Pos(fn.Pos()), fmt.Sprintf("start-up sets: cur from h-2, prev from h-3, next from h-1, h = the height entered: %v", truncate(fmt.Sprint(got), 400)))
	}
	r.Expect("C07.3", 6, "state machine validator set writers")

	// ---- C07.4
	if fn := w.Fn("tmstate.StateMachine.rejectMismatchedProposedHeaders"); fn != nil {
		a := w.AU(fn)
		n := 0
		a.Instrs(func(in ssa.Instruction) {
			c, ok := in.(*ssa.Call)
			if !ok {
				return
			}
			if _, cn := calleeName(&c.Call); cn != "append" {
				return
			}
			n++
			r.RequireGuards(a, "C07.4", fmt.Sprintf("%s#append%d", FuncName(fn), n), in,
				G{Name: "validator-set", Pattern: "@tmconsensus.ValidatorSet.Equal($ph.Header.ValidatorSet,p2.CurValSet)", Holds: true},
				G{Name: "next-validator-set", Pattern: "@tmconsensus.ValidatorSet.Equal($ph.Header.NextValidatorSet,p2.PrevFinNextValSet)", Holds: true},
				G{Name: "app-state-hash", Pattern: "($ph.Header.PrevAppStateHash == p2.PrevFinAppStateHash)", Holds: true},
			)
		})
		if n == 0 {
			r.Fail("C07.4", FuncName(fn)+"#append", w.Pos(fn.Pos()), "filter keeps nothing")
		}
	} else {
		r.Fail("C07.4", "filter", "", "rejectMismatchedProposedHeaders not found")
	}
	// every PHs field of Consider/Choose requests is a filter result
	ord := Ord{}
	for _, fn := range w.FuncsInPkg("tmengine/internal/tmstate") {
		a := w.A(fn)
		for _, s := range a.Sends() {
			tn := TypeName(s.Val.Type())
			if tn != "tsi.ConsiderProposedBlocksRequest" && tn != "tsi.ChooseProposedBlockRequest" {
				continue
			}
			v := a.sh.Of(s.Val)
			con := ord.Next(FuncName(fn) + "#" + strings.TrimPrefix(tn, "tsi."))
			phs := ""
			if v.K == "lit" {
				for i, f := range v.F {
					if f == "PHs" {
						phs = v.A[i].String()
					}
				}
			}
			r.Check(strings.Contains(phs, "@tmstate.StateMachine.rejectMismatchedProposedHeaders("), "C07.4", con, w.InstrPos(s.Instr), "proposals offered to the strategy: "+truncate(phs, 160))
		}
	}
	if fn := w.Fn("tmstate.StateMachine.recordProposedHeader"); fn != nil {
		a := w.AU(fn)
		ok := false
		a.Instrs(func(in ssa.Instruction) {
			if c, isCall := in.(*ssa.Call); isCall {
				if _, cn := calleeName(&c.Call); cn == "tmconsensus.HashScheme.Block" {
					h := a.sh.Of(c.Call.Args[0]).String()
					if strings.Contains(h, "ValidatorSet:p2.CurValSet") && strings.Contains(h, "NextValidatorSet:p2.PrevFinNextValSet") && strings.Contains(h, "PrevAppStateHash:p2.PrevFinAppStateHash") {
						ok = true
					}
				}
			}
		})
		r.Check(ok, "C07.4", "tmstate.StateMachine.recordProposedHeader(sets)", w.Pos(fn.Pos()), "the proposed header carries CurValSet, PrevFinNextValSet and the previous app state hash")
	}
	r.Rule("C07.6", "the engine gives its mirror the chain's validator set for the initial height (InitChain result or the finalization stored for InitialHeight-1), never the external genesis document")
	engineInitialValidatorSet(r, "C07.6")
	r.Expect("C07.4", 8, "proposal filter obligations")
}

// isCommittedNextValSet: the value is <voting view proposed header>.Header.NextValidatorSet.
func isCommittedNextValSet(v *Shape) bool {
	alts := []*Shape{v}
	if v.K == "phi" {
		alts = v.A
	}
	for _, alt := range alts {
		b, ok := Match("$ph.Header.NextValidatorSet", alt)
		if !ok || !strings.Contains(b["$ph"].String(), ".Voting.RoundView.ProposedHeaders[") {
			return false
		}
	}
	return len(alts) > 0
}

// paramRooted: v is p<i> or p<i>.f.g ; returns i and the field path.
func paramRooted(v *Shape) (int, []string, bool) {
	var rest []string
	for v.K == "fld" && len(v.A) == 1 {
		rest = append([]string{v.S}, rest...)
		v = v.A[0]
	}
	if v.K != "param" {
		return 0, nil, false
	}
	i, err := strconv.Atoi(strings.TrimPrefix(v.S, "p"))
	if err != nil {
		return 0, nil, false
	}
	return i, rest, true
}
