package main

import (
	"fmt"
	"strings"

	"golang.org/x/tools/go/ssa"
)

func init() {
	register(&PropMeta{
		ID: "C01", Title: "A header is committed only on a valid >2/3 precommit certificate",
		Explanation: "Every way a header becomes committed in the mirror is enumerated from the SSA (who may call the voting→committing shift, who may store the committing header, who may call CommittedHeaderStore.SaveCommittedHeader, which function accepts replayed headers, which code hands a committed header to the state machine) and each such site is shown to be dominated, on every CFG path, by the specific checks the property needs, with the operands it needs: precommit power of the most-voted hash >= ByzantineMajority(available power) of the same vote summary, non-nil hash, the committed header being the proposed header whose hash equals that hash; for replay: recomputed block hash equality, AllValidSignatures tested after each merge, majority over the powers; for proposed headers' previous-commit proofs: block-hash equality, proposal signature under the kernel-supplied key, pub-key-hash equality, ValidateFinalizedProof (unique, non-nil) and >= majority of the previous validator set. Signature proofs only ever set a bit after PubKey.Verify succeeded (shared with C13).",
		NotDecided:  "cryptographic validity (ed25519/BLS trusted); whether histories can make the guards hold spuriously; correctness of the vote summary itself (C06)",
		Assumptions: []string{"CFG paths over-approximate executions; boolean flag phis are tracked path-sensitively", "value shapes ignore intervening mutation of the same field (stated limit, DESIGN.md §2.5)"},
		Run:         runC01,
	})
}

const vsum = "$s.Voting.RoundView.VoteSummary"

func runC01(r *Run) {
	w := r.W
	prod := w.ProdFuncs()
	r.Rule("C01.1", "WMC/WMW: kState.ShiftVotingToCommitting has one production caller; kState.CommittingHeader and whole-view assignments to kState.Committing occur only in the shift and the start-up loader")
	r.Rule("C01.2", "GRD at the shift call: precommit power of the most voted hash >= ByzantineMajority(available) of the voting view's own summary, hash non-nil, and the committed header is the proposed header of the voting view whose hash equals that hash")
	r.Rule("C01.3", "WMC/DOM/PROV: CommittedHeaderStore.SaveCommittedHeader has one production caller, reached only after the shift, saving kState.CommittingHeader; its error stops the commit path")
	r.Rule("C01.4", "replay path: height equality, recomputed block hash equality, AllValidSignatures tested after every merge, block power >= ByzantineMajority dominate every state mutation and the success return; powers are those of the voting validator set (or the replayed set is checked equal)")
	r.Rule("C01.5", "HandleProposedHeader: acceptance is dominated by block-hash equality, proposal signature verification under the kernel-supplied key, previous-commit pub-key-hash equality and, above the initial height, unique + valid finalized proof and >= majority of the previous validator set's power")
	r.Rule("C01.6", "verify-before-set in both signature proof implementations (see C13.1)")
	r.Rule("C01.7", "a committed header handed to the state machine during catch-up comes from CommittedHeaderStore.LoadCommittedHeader")
	r.Rule("C01.8", "orientation of every threshold comparison")

	// ---------- C01.1
	shiftCalls := w.CallersOf(prod, "tmi.kState.ShiftVotingToCommitting")
	refs := w.FuncRefs(prod, "tmi.kState.ShiftVotingToCommitting")
	r.Check(len(shiftCalls) == 1 && len(refs) == 0, "C01.1", "callers(ShiftVotingToCommitting)", "", fmt.Sprintf("callers: %v; function-value references: %d", uniqueFns(shiftCalls), len(refs)))
	allowedHdr := map[string]bool{"tmi.kState.ShiftVotingToCommitting": true, "tmi.Kernel.loadInitialCommittingView": true}
	for _, fw := range w.FieldWrites(prod, "tmi.kState", "CommittingHeader") {
		con := fmt.Sprintf("write(kState.CommittingHeader)@%s", FuncName(fw.Fn))
		r.Check(allowedHdr[FuncName(fw.Fn)], "C01.1", con, w.InstrPos(fw.Instr), "only the shift and the start-up loader may set the committing header ("+fw.Kind+" "+pathString(fw.Path)+")")
	}
	for _, fw := range w.FieldWrites(prod, "tmi.kState", "Committing") {
		if fw.Kind != "store" || len(fw.Path) > 2 {
			continue
		}
		// whole-view or whole-RoundView assignment
		if len(fw.Path) == 2 && fw.Path[1].Field != "RoundView" {
			continue
		}
		fn := FuncName(fw.Fn)
		ok := fn == "tmi.kState.ShiftVotingToCommitting" || fn == "tmi.Kernel.loadInitialCommittingView" || fn == "tmi.NewKernel"
		r.Check(ok, "C01.1", "assign(kState.Committing)@"+fn, w.InstrPos(fw.Instr), "whole-view assignment of the committing view: "+pathString(fw.Path))
	}
	r.Rule("C01.12", "the message a signature proof verifies against is its own: sign bytes handed to a proof constructor (which keeps the slice) never share the backing array of a buffer that is reset and rewritten for the next block hash, so signatures for one hash cannot be merged into the proof filed under another")
	bufferAliasing(r, "C01.12")
	r.Rule("C01.11", "the certificate recorded with a committed header stays the one it was committed on: the saved commit proof is a private copy of the voting view's previous-commit proof")
	storedCommitProofIsPrivate(r, "C01.11")
	r.Expect("C01.1", 4, "shift caller, committing header writers, committing view assignments")

	// ---------- C01.2
	var shiftFn *ssa.Function
	if len(shiftCalls) >= 1 {
		shiftFn = shiftCalls[0].Fn
	}
	for _, cs := range shiftCalls {
		a := w.A(cs.Fn)
		con := FuncName(cs.Fn) + "#shift"
		r.RequireGuards(a, "C01.2", con, cs.Instr,
			G{Name: "majority", Pattern: "(" + vsum + ".PrecommitBlockPower[" + vsum + ".MostVotedPrecommitHash] < @tmconsensus.ByzantineMajority(" + vsum + ".AvailablePower))", Holds: false,
				Filter: func(b Bind) bool { return b["$s"].K == "param" }},
			G{Name: "non-nil-hash", Pattern: "(" + vsum + `.MostVotedPrecommitHash == "")`, Holds: false},
			G{Name: "header-matches-hash", Pattern: "($s.Voting.RoundView.ProposedHeaders[$i].Header.Hash == " + vsum + ".MostVotedPrecommitHash)", Holds: true,
				// the same search written with slices.IndexFunc: found (index >= 0) by a predicate
				// closure comparing the element's header hash with the most voted precommit hash
				Alt: []G{{Pattern: "(@slices.IndexFunc($s.Voting.RoundView.ProposedHeaders,$c) < 0)", Holds: false,
					Filter: func(b Bind) bool { return closureComparesHeaderHash(w, a, b["$c"]) }}}},
		)
		// whatever the shift's signature (a details struct, or separate parameters): every header handed
		// to it is an element of the voting view's proposed headers and every validator set is that
		// header's NextValidatorSet
		nHdr, nSet, okArg := 0, 0, true
		var shown []string
		for i := 1; i < len(callCommon(cs.Instr).Args); i++ {
			arg := a.sh.Of(CallArg(cs.Instr, i))
			type item struct {
				typ string
				s   *Shape
			}
			var items []item
			if arg.K == "lit" {
				for k, f := range arg.F {
					switch f {
					case "ValidatorSet":
						items = append(items, item{"tmconsensus.ValidatorSet", arg.A[k]})
					case "VotedHeader":
						items = append(items, item{"tmconsensus.Header", arg.A[k]})
					}
				}
			} else {
				items = append(items, item{TypeName(callCommon(cs.Instr).Args[i].Type()), arg})
			}
			for _, it := range items {
				switch it.typ {
				case "tmconsensus.ValidatorSet":
					nSet++
					shown = append(shown, "set="+truncate(it.s.String(), 100))
					if !isCommittedNextValSet(it.s) {
						okArg = false
					}
				case "tmconsensus.Header":
					nHdr++
					shown = append(shown, "header="+truncate(it.s.String(), 100))
					alts := []*Shape{it.s}
					if it.s.K == "phi" {
						alts = it.s.A
					}
					for _, alt := range alts {
						b, ok := Match("$ph.Header", alt)
						if !ok || !strings.Contains(b["$ph"].String(), ".Voting.RoundView.ProposedHeaders[") {
							okArg = false
						}
					}
				}
			}
		}
		r.Check(okArg && nHdr > 0 && nSet > 0, "C01.2", con+"(argument)", w.InstrPos(cs.Instr), "the voted header is an element of the voting view's proposed headers and the next validator set is that header's NextValidatorSet: "+strings.Join(shown, " ; "))
	}

	// ---------- C01.3
	saves := w.CallersOf(prod, "tmstore.CommittedHeaderStore.SaveCommittedHeader")
	r.Check(len(saves) == 1, "C01.3", "callers(SaveCommittedHeader)", "", fmt.Sprintf("production callers: %v", uniqueFns(saves)))
	for _, sv := range saves {
		a := w.A(sv.Fn)
		arg := a.sh.Of(CallArg(sv.Instr, 2))
		_, ok := Match("lit:tmconsensus.CommittedHeader{Header:$s.CommittingHeader,Proof:$s.Voting.RoundView.PrevCommitProof}", arg)
		if !ok {
			// a private copy of the same proof (required by C10.8) carries the same content
			_, ok = Match("lit:tmconsensus.CommittedHeader{Header:$s.CommittingHeader,Proof:@tmconsensus.CommitProof.Clone($s.Voting.RoundView.PrevCommitProof)}", arg)
		}
		r.Check(ok, "C01.3", FuncName(sv.Fn)+"#save(argument)", w.InstrPos(sv.Instr), "saved value must be {kState.CommittingHeader, voting PrevCommitProof}: "+truncate(arg.String(), 200))
		// the error is propagated
		rets := returnShapes(a, 0)
		r.Check(len(rets) >= 2 && containsPrefix(rets, "nil"), "C01.3", FuncName(sv.Fn)+"#save(error)", w.Pos(sv.Fn.Pos()), "save error is returned to the caller: "+strings.Join(rets, " | "))
		if shiftFn == nil {
			continue
		}
		// in the shift function: shift dominates the call of the saver; nothing else calls the saver
		sa := w.A(shiftFn)
		var saverCalls []ssa.Instruction
		if sv.Fn == shiftFn {
			saverCalls = []ssa.Instruction{sv.Instr}
		} else {
			all := w.CallersOf(prod, FuncName(sv.Fn))
			for _, c := range all {
				r.Check(c.Fn == shiftFn, "C01.3", "caller("+FuncName(sv.Fn)+")@"+FuncName(c.Fn), w.InstrPos(c.Instr), "the header-saving helper may only be called from the shift function")
				if c.Fn == shiftFn {
					saverCalls = append(saverCalls, c.Instr)
				}
			}
		}
		for i, sc := range saverCalls {
			con := fmt.Sprintf("%s#save%d", FuncName(shiftFn), i+1)
			r.Check(Dominates(shiftCalls[0].Instr, sc), "C01.3", con+"(after-shift)", w.InstrPos(sc), "the committed header is saved only after the view shift that established it")
			// every later step of the commit path (position update) requires the save to have succeeded
			for _, uo := range sa.CallsTo("tmi.Kernel.updateObservers") {
				if ReachesAfter(sc, uo) {
					e, _ := sa.IfEdgesB("($call == nil)", true, Bind{"$call": sa.sh.Of(sc.(ssa.Value))}, nil)
					r.Check(len(e) > 0 && sa.EveryPathFromTakes(sc.Block(), uo, e), "C01.3", con+"(error-stops)", w.InstrPos(uo), "the position update after the save is reached only when the save returned nil")
				}
			}
		}
	}

	// ---------- C01.4 replay
	var replayFn *ssa.Function
	for _, fn := range w.FuncsInPkg("tmmirror/internal/tmi") {
		if fn.Parent() != nil {
			continue
		}
		hasH, hasP := false, false
		for _, p := range fn.Params {
			switch TypeName(p.Type()) {
			case "tmconsensus.Header":
				hasH = true
			case "tmconsensus.CommitProof":
				hasP = true
			}
		}
		if hasH && hasP && fn.Signature.Results().Len() == 1 {
			replayFn = fn
		}
	}
	if replayFn == nil {
		r.Fail("C01.4", "anchor", "", "no kernel function takes (Header, CommitProof) and returns an error: the replay handler is missing")
	} else {
		checkReplay(r, replayFn)
	}

	// ---------- C01.5
	checkHandleProposedHeader(r)

	// ---------- C01.6
	verifyBeforeSet(r, "C01.6")

	// ---------- C01.7
	n7 := 0
	for _, fn := range prod {
		a := w.A(fn)
		for _, s := range a.Sends() {
			if TypeName(s.Val.Type()) != "tmeil.RoundEntranceResponse" {
				continue
			}
			v := a.sh.Of(s.Val)
			if v.K != "lit" {
				r.Fail("C01.7", FuncName(fn)+"#response", w.InstrPos(s.Instr), "round entrance response is not a literal: "+truncate(v.String(), 120))
				continue
			}
			for i, f := range v.F {
				if f != "CH" {
					continue
				}
				n7++
				ch := v.A[i]
				_, ok := Match("@@tmstore.CommittedHeaderStore.LoadCommittedHeader($...)#0", ch)
				con := fmt.Sprintf("%s#response.CH%d", FuncName(fn), n7)
				okG := false
				if ok {
					e, _ := a.IfEdges("(@@tmstore.CommittedHeaderStore.LoadCommittedHeader($...)#1 == nil)", true, nil)
					okG = len(e) > 0 && a.EveryPathTakes(s.Instr, e)
				}
				r.Check(ok && okG, "C01.7", con, w.InstrPos(s.Instr), "CH must be the result of a successful LoadCommittedHeader: "+truncate(ch.String(), 160))
			}
		}
	}
	r.Expect("C01.7", 1, "catch-up response carrying a committed header")

	thresholdOrientation(r, "C01.8")
	// the majority in C01.2 is taken over AvailablePower: it must be the total of the set assigned to the view
	availablePowerCoherence(r, "C01.9")
	r.Expect("C01.2", 4, "guards on the shift call")
	r.Expect("C01.3", 4, "committed header save")
	r.Expect("C01.8", 15, "threshold comparisons")
	// the certificate is weighed against the validator set the chain prescribes for that height:
	// where the kernel views get their validator sets from (live shift and start-up) is C07.1
	r.Borrow(runC07, "C07", "C07.1", "C01.10", "a kernel view's validator set is the committed header's NextValidatorSet (shift) or, at start-up, the genesis set / NextValidatorSet of the stored committed header")
}

func checkReplay(r *Run, fn *ssa.Function) {
	w := r.W
	a := w.A(fn)
	name := FuncName(fn)
	// parameter names by type
	var ks, hdr, prf string
	for i, p := range fn.Params {
		switch TypeName(p.Type()) {
		case "tmi.kState":
			ks = fmt.Sprintf("p%d", i)
		case "tmconsensus.Header":
			hdr = fmt.Sprintf("p%d", i)
		case "tmconsensus.CommitProof":
			prf = fmt.Sprintf("p%d", i)
		}
	}
	if ks == "" {
		r.Fail("C01.4", name+"(anchor)", w.Pos(fn.Pos()), "replay handler has no *kState parameter")
		return
	}
	_ = prf
	// targets: every mutation of the voting view's precommit proofs, the call that can shift, and success returns
	var targets []struct {
		in   ssa.Instruction
		what string
	}
	a.Instrs(func(in ssa.Instruction) {
		switch x := in.(type) {
		case *ssa.MapUpdate:
			if strings.HasPrefix(a.sh.Of(x.Map).String(), ks+".Voting.RoundView.PrecommitProofs") {
				targets = append(targets, struct {
					in   ssa.Instruction
					what string
				}{in, "store-proof"})
			}
		case *ssa.Call:
			_, n := calleeName(&x.Call)
			if n == "tmi.Kernel.checkVotingPrecommitViewShift" || n == "tmi.kState.ShiftVotingToCommitting" {
				targets = append(targets, struct {
					in   ssa.Instruction
					what string
				}{in, "shift-check"})
			}
		}
	})
	for _, ret := range a.ReturnsOf(0, "nil") {
		targets = append(targets, struct {
			in   ssa.Instruction
			what string
		}{ret, "return-nil"})
	}
	if len(targets) < 3 {
		r.Fail("C01.4", name+"(targets)", w.Pos(fn.Pos()), fmt.Sprintf("expected proof store, shift check and success return in the replay handler; found %d", len(targets)))
	}
	ord := Ord{}
	for _, t := range targets {
		con := ord.Next(name + "#" + t.what)
		r.RequireGuards(a, "C01.4", con, t.in,
			G{Name: "height", Pattern: "(" + hdr + ".Height == " + ks + ".Voting.RoundView.Height)", Holds: true},
			G{Name: "hash", Pattern: "@bytes.Equal(@@tmconsensus.HashScheme.Block($hs," + hdr + ")#0," + hdr + ".Hash)", Holds: true,
				Alt: []G{{Pattern: "@bytes.Equal(" + hdr + ".Hash,@@tmconsensus.HashScheme.Block($hs," + hdr + ")#0)", Holds: true}}},
			G{Name: "majority", Pattern: "($pow < @tmconsensus.ByzantineMajority(" + ks + ".Voting.RoundView.VoteSummary.AvailablePower))", Holds: false},
		)
	}
	// merge discipline: after every MergeSparse/Merge call, targets are reachable only through the AllValidSignatures edge
	merges := a.CallsTo("gcrypto.CommonMessageSignatureProof.MergeSparse", "gcrypto.CommonMessageSignatureProof.Merge")
	for i, m := range merges {
		con := fmt.Sprintf("%s#merge%d", name, i+1)
		e, _ := a.IfEdgesB("$m.AllValidSignatures", true, Bind{"$m": a.sh.Of(m.(ssa.Value))}, nil)
		ok := len(e) > 0
		for _, t := range targets {
			if !a.EveryPathFromTakes(m.Block(), t.in, e) {
				ok = false
			}
		}
		r.Check(ok, "C01.4", con+"(all-valid)", w.InstrPos(m), "after merging replayed signatures every continuation that can mutate state or succeed must have seen AllValidSignatures == true")
	}
	if len(merges) == 0 {
		r.Fail("C01.4", name+"#merge", w.Pos(fn.Pos()), "replayed signatures are not merged through a verifying proof")
	}
	// C01.4e: whose powers are summed / whose keys verify
	majEdges, majIfs := a.IfEdges("($pow < @tmconsensus.ByzantineMajority("+ks+".Voting.RoundView.VoteSummary.AvailablePower))", false, nil)
	_ = majEdges
	eqSets, _ := a.IfEdges("@tmconsensus.ValidatorSet.Equal($x,$y)", true, func(b Bind) bool {
		s := b["$x"].String() + "|" + b["$y"].String()
		return strings.Contains(s, hdr+".ValidatorSet") && strings.Contains(s, ks+".Voting.RoundView.ValidatorSet")
	})
	for i, ifi := range majIfs {
		con := fmt.Sprintf("%s#majority%d(validator-set)", name, i+1)
		cond := a.sh.Of(ifi.Cond)
		usesHeaderSet := ContainsP(hdr+".ValidatorSet.Validators[$_].Power", cond)
		usesVotingSet := ContainsP(ks+".Voting.RoundView.ValidatorSet.Validators[$_].Power", cond)
		ok := usesVotingSet && !usesHeaderSet
		if usesHeaderSet && len(eqSets) > 0 {
			ok = true
			for _, t := range targets {
				if !a.EveryPathTakes(t.in, eqSets) {
					ok = false
				}
			}
		}
		r.Check(ok, "C01.4e", con, w.InstrPos(ifi), "the power weighed against the majority must be summed over the voting view's validator set, or the replayed header's set must first be checked equal to it; condition: "+truncate(cond.String(), 260))
	}
	// keys used to build verifying proofs
	for i, nw := range a.CallsTo("gcrypto.CommonMessageSignatureProofScheme.New") {
		con := fmt.Sprintf("%s#newproof%d(keys)", name, i+1)
		keys := a.sh.Of(CallArg(nw, 2)).String()
		ok := keys == ks+".Voting.RoundView.ValidatorSet.PubKeys"
		// ValidatorSet.Equal compares the two hashes and the Validators slice, not the separate PubKeys
		// slice: keys taken from the replayed header are acceptable only when derived from its
		// (equality-checked) Validators, never its PubKeys field
		if !ok && strings.Contains(keys, hdr+".ValidatorSet.Validators") && !strings.Contains(keys, hdr+".ValidatorSet.PubKeys") && len(eqSets) > 0 && a.EveryPathTakes(nw, eqSets) {
			ok = true
		}
		r.Check(ok, "C01.4e", con, w.InstrPos(nw), "signatures of a replayed commit must be verified under the voting view's public keys (or keys derived from an equality-checked Validators slice; ValidatorSet.Equal does not cover the PubKeys field); keys: "+keys)
	}
	r.Rule("C01.4e", "replay: the validator set that verifies and weighs the replayed certificate is the one the chain prescribes (the voting view's), not the one embedded in the replayed header")
}

func checkHandleProposedHeader(r *Run) {
	w := r.W
	fn := w.Fn("tmmirror.Mirror.HandleProposedHeader")
	if fn == nil {
		r.Fail("C01.5", "anchor", "", "Mirror.HandleProposedHeader not found")
		return
	}
	a := w.AU(fn)
	name := FuncName(fn)
	var targets []ssa.Instruction
	for _, s := range a.Sends() {
		if strings.HasSuffix(a.sh.Of(s.Chan).String(), ".addPHRequests") {
			targets = append(targets, s.Instr)
		}
	}
	nSend := len(targets)
	targets = append(targets, a.ReturnsOf(0, "%tmconsensus.HandleProposedHeaderAccepted")...)
	if nSend == 0 || len(targets) == nSend {
		r.Fail("C01.5", name+"(targets)", w.Pos(fn.Pos()), "expected an add-proposed-header request and an Accepted return")
	}
	const chk = "$chk"
	belowOrAt := G{Pattern: "(p0.initialHeight < p2.Header.Height)", Holds: false}
	ord := Ord{}
	for i, t := range targets {
		what := "accept-return"
		if i < nSend {
			what = "add-request"
		}
		con := ord.Next(name + "#" + what)
		r.RequireGuards(a, "C01.5", con, t,
			G{Name: "acceptable", Pattern: "(" + chk + ".Status == %tmi.PHCheckAcceptable)", Holds: true},
			G{Name: "block-hash", Pattern: "@bytes.Equal(@@tmconsensus.HashScheme.Block(p0.hashScheme,p2.Header)#0,p2.Header.Hash)", Holds: true,
				Alt: []G{{Pattern: "@bytes.Equal(p2.Header.Hash,@@tmconsensus.HashScheme.Block(p0.hashScheme,p2.Header)#0)", Holds: true}}},
			G{Name: "proposal-signature", Pattern: "@@gcrypto.PubKey.Verify(" + chk + ".ProposerPubKey,@tmconsensus.ProposalSignBytes(p2.Header,p2.Round,p2.Annotations,p0.sigScheme)#0,p2.Signature)", Holds: true},
			G{Name: "prev-pubkey-hash", Pattern: "(" + chk + ".PrevValidatorSet.PubKeyHash == p2.Header.PrevCommitProof.PubKeyHash)", Holds: true},
			G{Name: "prev-proof-unique", Pattern: "@@gcrypto.CommonMessageSignatureProofScheme.ValidateFinalizedProof($...)#1", Holds: true, Alt: []G{belowOrAt}},
			G{Name: "prev-proof-valid", Pattern: "(@@gcrypto.CommonMessageSignatureProofScheme.ValidateFinalizedProof($...)#0 == nil)", Holds: false, Alt: []G{belowOrAt}},
			G{Name: "prev-majority", Pattern: "($pow < @tmconsensus.ByzantineMajority($avail))", Holds: false, Alt: []G{belowOrAt},
				Filter: func(b Bind) bool {
					return strings.Contains(b["$pow"].String(), ".PrevValidatorSet.Validators[") && strings.Contains(b["$avail"].String(), ".PrevValidatorSet.Validators[")
				}},
		)
	}
	// provenance of the finalized proof handed to the scheme
	for i, c := range a.CallsTo("gcrypto.CommonMessageSignatureProofScheme.ValidateFinalizedProof") {
		con := fmt.Sprintf("%s#validate%d(proof)", name, i+1)
		arg := a.sh.Of(CallArg(c, 1))
		_, ok := Match("lit:gcrypto.FinalizedCommonMessageSignatureProof{Keys:$chk.PrevValidatorSet.PubKeys,PubKeyHash:p2.Header.PrevCommitProof.PubKeyHash,MainSignatures:p2.Header.PrevCommitProof.Proofs[p2.Header.PrevBlockHash],MainMessage:@tmconsensus.PrecommitSignBytes(lit:tmconsensus.VoteTarget{Height:(p2.Header.Height - 1),Round:p2.Header.PrevCommitProof.Round,BlockHash:p2.Header.PrevBlockHash},p0.sigScheme)#0,$...}", arg)
		r.Check(ok, "C01.5", con, w.InstrPos(c), "the finalized proof is verified under the kernel-supplied previous validator keys, for precommit sign bytes of (height-1, proof round, previous block hash): "+truncate(arg.String(), 200))
	}
	// the power counted is that of signers of the previous block hash
	_, ifs := a.IfEdges("($pow < @tmconsensus.ByzantineMajority($avail))", false, nil)
	for i, ifi := range ifs {
		cond := a.sh.Of(ifi.Cond)
		con := fmt.Sprintf("%s#prev-majority%d(operands)", name, i+1)
		// the bit test that gates the accumulation uses the validated bit set of the previous block hash
		bitTest, _ := a.IfEdges("@bitset.BitSet.Test(@@gcrypto.CommonMessageSignatureProofScheme.ValidateFinalizedProof($...)#0[p2.Header.PrevBlockHash],$i)", true, nil)
		r.Check(len(bitTest) > 0, "C01.5", con, w.InstrPos(ifi), "counted power is gated by the validated signer bits of the previous block hash; condition "+truncate(cond.String(), 200))
	}
	r.Expect("C01.5", 16, "guards on proposed header acceptance")
}
