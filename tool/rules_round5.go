package main

// Rules added after the fifth round of independently seeded changes (DESIGN §9.10).

import (
	"fmt"
	"go/token"
	"go/types"
	"strings"

	"golang.org/x/tools/go/ssa"
)

// derivedThresholds (C18.8): a Byzantine threshold is compared as it is. A comparison operand
// that is hand arithmetic over a threshold (n - maj, min - 1, 2*maj ...) re-derives a bound whose
// strictness the exactness proof of C18.1-5 does not cover ("a set below the minority threshold
// can never block a majority" needs n - maj = min - 1 to be compared with >, not >=).
func derivedThresholds(r *Run, rule string) {
	w := r.W
	isCmp := func(op token.Token) bool {
		switch op {
		case token.EQL, token.NEQ, token.LSS, token.LEQ, token.GTR, token.GEQ:
			return true
		}
		return false
	}
	hasT := func(s *Shape) bool {
		found := false
		s.Walk(func(x *Shape) {
			if x.K == "call" && (x.S == "tmconsensus.ByzantineMajority" || x.S == "tmconsensus.ByzantineMinority") {
				found = true
			}
		})
		return found
	}
	sites, bad := 0, 0
	for _, fn := range w.ProdFuncs() {
		if n := FuncName(fn); n == "tmconsensus.ByzantineMajority" || n == "tmconsensus.ByzantineMinority" {
			continue
		}
		a := w.A(fn)
		k := 0
		a.Instrs(func(in ssa.Instruction) {
			bo, ok := in.(*ssa.BinOp)
			if !ok || !isCmp(bo.Op) {
				return
			}
			for _, opd := range []ssa.Value{bo.X, bo.Y} {
				s := a.sh.Of(opd)
				if !hasT(s) {
					continue
				}
				sites++
				// scope: decisions on vote power (a summary quantity takes part in the comparison);
				// CanTrustValidators' deliberately stricter "more than a third of a foreign set" test
				// (pinned by its own unit test) is not a consensus threshold decision
				both := a.sh.Of(bo).String()
				votePower := strings.Contains(both, "BlockPower") || strings.Contains(both, "TotalPrevotePower") || strings.Contains(both, "TotalPrecommitPower")
				if s.K == "bin" && votePower {
					k++
					bad++
					r.Fail(rule, fmt.Sprintf("%s#derived%d", FuncName(fn), k), w.InstrPos(bo), "comparison against arithmetic over a Byzantine threshold: "+truncate(a.sh.Of(bo).String(), 200))
				}
			}
		})
	}
	r.Check(sites > 0, rule, "census", "", fmt.Sprintf("%d threshold operands in production comparisons, %d computed by hand arithmetic over a threshold", sites, bad))
}

// reachesWithout: starting at the head of block `from`, can `target` be executed without first
// executing an instruction satisfying hit?
func reachesWithout(from *ssa.BasicBlock, target ssa.Instruction, hit func(ssa.Instruction) bool) bool {
	seen := map[*ssa.BasicBlock]bool{from: true}
	work := []*ssa.BasicBlock{from}
	for len(work) > 0 {
		b := work[len(work)-1]
		work = work[:len(work)-1]
		stopped := false
		for _, in := range b.Instrs {
			if in == target {
				return true
			}
			if hit(in) {
				stopped = true
				break
			}
		}
		if stopped {
			continue
		}
		for _, s := range b.Succs {
			if !seen[s] {
				seen[s] = true
				work = append(work, s)
			}
		}
	}
	return false
}

// closureMentions: the function value v is a closure (or function) whose body contains a call
// whose shape satisfies pred.
func closureMentions(w *World, v ssa.Value, pred func(string) bool) bool {
	var fn *ssa.Function
	switch x := v.(type) {
	case *ssa.MakeClosure:
		fn, _ = x.Fn.(*ssa.Function)
	case *ssa.Function:
		fn = x
	}
	if fn == nil {
		return false
	}
	found := false
	a := w.A(fn)
	a.Instrs(func(in ssa.Instruction) {
		if c := callCommon(in); c != nil && pred(a.sh.callShape(c).String()) {
			found = true
		}
	})
	return found
}

// startupProposalSuppression (C02.10): at start-up the consensus strategy is handed a live
// proposal channel only if neither the mirror's view nor the action store already holds a
// proposed header of ours for the round. Found by role: the tmstate function that loads the
// recorded actions of the round and sends the start-up EnterRoundRequest.
func startupProposalSuppression(r *Run, rule string) {
	w := r.W
	var fn *ssa.Function
	for _, c := range w.CallersOf(w.FuncsInPkg("tmengine/internal/tmstate"), "tmstore.ActionStore.LoadActions") {
		fn = w.Owner(c.Fn)
	}
	if fn == nil {
		r.Fail(rule, "anchor", "", "no tmstate function loads the recorded actions at start-up")
		return
	}
	a := w.AU(fn)
	name := FuncName(fn)
	// target: the request that hands the proposal channel to the strategy
	var target ssa.Instruction
	for _, s := range a.Sends() {
		if strings.Contains(TypeName(s.Val.Type()), "EnterRoundRequest") {
			target = s.Instr
		}
	}
	if target == nil {
		r.Fail(rule, name+"#enter-round", w.Pos(fn.Pos()), "no EnterRoundRequest is sent at start-up")
		return
	}
	nilStore := func(in ssa.Instruction) bool {
		st, ok := in.(*ssa.Store)
		return ok && lastField(st.Addr) == "tsi.RoundLifecycle.ProposalCh" && a.sh.Of(st.Val).String() == "nil"
	}
	ownKey := func(s string) bool {
		return strings.Contains(s, "gcrypto.PubKey.Equal(") && strings.Contains(s, "ProposerPubKey") && strings.Contains(s, "tmconsensus.Signer.PubKey(")
	}
	// edges on which "the mirror's view holds a proposed header signed by our key" is established
	type edge struct {
		b   *ssa.BasicBlock
		pos string
	}
	var mirrorEdges, storeEdges []edge
	a.Instrs(func(in ssa.Instruction) {
		ifi, ok := in.(*ssa.If)
		if !ok {
			return
		}
		p := NormPred(a.sh.Of(ifi.Cond))
		if p.Op == "" {
			s := p.L.String()
			hit := ownKey(s)
			if !hit && p.L.K == "call" && (p.L.S == "slices.ContainsFunc" || p.L.S == "slices.IndexFunc") && strings.Contains(s, "ProposedHeaders") {
				// the predicate closure compares our key with the proposer's
				if c := findCall(ifi.Cond); c != nil && len(c.Call.Args) == 2 {
					hit = closureMentions(w, c.Call.Args[1], func(cs string) bool {
						return strings.Contains(cs, "gcrypto.PubKey.Equal(") && strings.Contains(cs, "ProposerPubKey")
					})
				}
			}
			if hit {
				si := 0
				if p.Neg {
					si = 1
				}
				mirrorEdges = append(mirrorEdges, edge{ifi.Block().Succs[si], w.InstrPos(ifi)})
			}
			return
		}
		if p.Op == "==" && strings.HasSuffix(p.L.String(), ".ProposedHeader.Header.Height") && strings.Contains(p.L.String(), "ActionStore.LoadActions") && p.R.String() == "0" {
			// recorded header present <=> Height != 0
			si := 1
			if p.Neg {
				si = 0
			}
			storeEdges = append(storeEdges, edge{ifi.Block().Succs[si], w.InstrPos(ifi)})
		}
	})
	r.Check(len(mirrorEdges) > 0, rule, name+"(own-header-in-view-test)", w.Pos(fn.Pos()), "start-up tests whether the mirror's view already holds a proposed header signed by our key")
	for i, e := range mirrorEdges {
		r.Check(!reachesWithout(e.b, target, nilStore), rule, fmt.Sprintf("%s#own-header-in-view%d", name, i+1), e.pos,
			"once our own proposed header is found in the mirror's view, the strategy is entered only after the proposal channel was set to nil (no second proposal after a restart)")
	}
	r.Check(len(storeEdges) > 0, rule, name+"(recorded-header-test)", w.Pos(fn.Pos()), "start-up tests whether the action store already holds a proposed header for the round")
	for i, e := range storeEdges {
		r.Check(!reachesWithout(e.b, target, nilStore), rule, fmt.Sprintf("%s#recorded-header%d", name, i+1), e.pos,
			"once a recorded proposed header is found in the action store, the strategy is entered only after the proposal channel was set to nil")
	}
	// the store is consulted whenever the view did not settle it: the load is reachable from entry
	// without passing a nil store only... (the converse — skipping the store when the view had no
	// header of ours — is the C02-e shape and is caught above through the view edge)
	_ = types.Typ
}

// findCall strips negations / loads and returns the call a condition tests.
func findCall(v ssa.Value) *ssa.Call {
	for i := 0; i < 6; i++ {
		switch x := v.(type) {
		case *ssa.Call:
			return x
		case *ssa.UnOp:
			if x.Op == token.NOT {
				v = x.X
				continue
			}
			if x.Op == token.MUL {
				if rs := reachingStore(x); rs != nil {
					v = rs
					continue
				}
			}
			return nil
		case *ssa.Phi:
			return nil
		default:
			return nil
		}
	}
	return nil
}

// freshElapsedChannel (C12.8): every started timer reports on a channel of its own. The channel
// handed out in the start response is created by a make that dominates the response on every
// path of the starting function; a channel shared with an earlier (cancelled) timer would make
// that cancelled timer report elapsed when a later one fires.
func freshElapsedChannel(r *Run, rule string) {
	w := r.W
	n := 0
	for _, fn := range w.FuncsInPkg("tmengine/internal/tmstate") {
		if !w.IsProd(fn) {
			continue
		}
		a := w.A(fn)
		for _, s := range a.Sends() {
			if !strings.HasSuffix(TypeName(s.Val.Type()), "startTimerResponse") {
				continue
			}
			v := a.sh.Of(s.Val)
			if v.K != "lit" {
				continue
			}
			for i, f := range v.F {
				if f != "Elapsed" {
					continue
				}
				n++
				el := v.A[i]
				ok := el.K == "make"
				if !ok {
					a.Instrs(func(in ssa.Instruction) {
						st, isSt := in.(*ssa.Store)
						if !isSt {
							return
						}
						if in.Parent() != s.Instr.Parent() || !Dominates(in, s.Instr) {
							return
						}
						addr := a.sh.Of(st.Addr).String()
						if _, isMk := st.Val.(*ssa.MakeChan); isMk && addr == el.String() {
							ok = true
						}
						// the channel is a field of a grouping struct assigned wholesale
						if strings.HasPrefix(el.String(), addr+".") {
							if v := a.sh.Of(st.Val); v.K == "lit" {
								for i, f := range v.F {
									if addr+"."+f == el.String() && v.A[i].K == "make" {
										ok = true
									}
								}
							}
						}
					})
				}
				r.Check(ok, rule, fmt.Sprintf("%s#start-response%d", FuncName(topParent(fn)), n), w.InstrPos(s.Instr),
					"the elapsed channel of a started timer is freshly made on every path to the response (never a channel an earlier, cancelled timer still holds): "+el.String())
			}
		}
	}
	if n == 0 {
		r.Fail(rule, "start-response", "", "no start response carrying an elapsed channel found in tmstate")
	}
}

func topParent(fn *ssa.Function) *ssa.Function {
	for fn.Parent() != nil {
		fn = fn.Parent()
	}
	return fn
}

// dumpMapUpdates is a debugging aid (./check dump-mapupdates via GVERIF_DEBUG).
func dumpMapUpdates(w *World, pkg string) {
	for _, fn := range w.FuncsInPkg(pkg) {
		a := w.A(fn)
		a.Instrs(func(in ssa.Instruction) {
			if mu, ok := in.(*ssa.MapUpdate); ok {
				fmt.Printf("MU %s: %s[%s] <- %s\n", FuncName(fn), a.sh.Of(mu.Map), a.sh.Of(mu.Key), truncate(a.sh.Of(mu.Value).String(), 160))
			}
		})
	}
}

// storeMapDiscipline (C16.6): a save into one of the in-memory stores' maps never silently
// replaces what an earlier completed save stored. Every map update in a tmmemstore method is one of
//
//	accumulate  — the value is append(<same map>[<same key>], new...) (collections: proposed and
//	              replayed headers of a height keep every entry),
//	refuse      — the update is unreachable once a lookup of the same map and key reported
//	              "present" (the method returns its overwrite / already-exists error instead),
//	record      — the action store's per-round record, rewritten in place (fields guarded by C16.2),
//	by design   — the three methods whose contract is replacement (table below, one line each).
func storeMapDiscipline(r *Run, rule string) {
	w := r.W
	byDesign := map[string]string{
		"tmmemstore.CommittedHeaderStore.SaveCommittedHeader": "the committed-header store keeps the latest header per height (single writer: the kernel's commit path, C01.3)",
		"tmmemstore.RoundStore.OverwriteRoundPrevoteProofs":   "contract: replaces the round's prevote collection with a superset computed by the kernel",
		"tmmemstore.RoundStore.OverwriteRoundPrecommitProofs": "contract: replaces the round's precommit collection with a superset computed by the kernel",
	}
	n := 0
	for _, fn := range w.FuncsInPkg("tmstore/tmmemstore") {
		if !w.IsProd(fn) || fn.Parent() != nil || w.Folded(fn) {
			continue
		}
		name := FuncName(fn)
		a := w.A(fn)
		k := 0
		a.Instrs(func(in ssa.Instruction) {
			mu, ok := in.(*ssa.MapUpdate)
			if !ok {
				return
			}
			k++
			n++
			m, key, val := a.sh.Of(mu.Map).String(), a.sh.Of(mu.Key).String(), a.sh.Of(mu.Value)
			con := fmt.Sprintf("%s#update%d", name, k)
			switch {
			case strings.HasPrefix(name, "tmmemstore.ActionStore."):
				r.Pass(rule, con, w.InstrPos(in), "record: per-round action record rewritten in place (C16.2 guards its fields)")
				return
			case val.K == "call" && val.S == "append" && len(val.A) > 0 && val.A[0].String() == m+"["+key+"]":
				r.Pass(rule, con, w.InstrPos(in), "accumulate: "+truncate(val.String(), 100))
				return
			}
			// refuse: unreachable from the "present" edge of a lookup of the same map and key
			want := m + "[" + key + "]#1"
			var present []*ssa.BasicBlock
			a.Instrs(func(x ssa.Instruction) {
				ifi, ok := x.(*ssa.If)
				if !ok {
					return
				}
				p := NormPred(a.sh.Of(ifi.Cond))
				if p.Op == "" && p.L.String() == want {
					si := 0
					if p.Neg {
						si = 1
					}
					present = append(present, ifi.Block().Succs[si])
				}
			})
			refused := len(present) > 0
			for _, b := range present {
				if b == in.Block() || reach(b, nil)[in.Block()] {
					refused = false
				}
			}
			if refused {
				r.Pass(rule, con, w.InstrPos(in), "refuse: not reachable once the key was found present")
				return
			}
			if why, ok := byDesign[name]; ok && val.K != "make" {
				r.Pass(rule, con, w.InstrPos(in), "by design: "+why)
				return
			}
			r.Fail(rule, con, w.InstrPos(in), fmt.Sprintf("%s[%s] <- %s silently replaces an earlier save (neither accumulated, refused when present, nor a replacement by contract)", m, key, truncate(val.String(), 100)))
		})
	}
	if n == 0 {
		r.Fail(rule, "census", "", "no map updates found in tmmemstore")
	}
}

// engineInitialValidatorSet (C07.6 = C10.7): the full engine hands its mirror the validator set
// the chain recorded for the initial height — the state machine's genesis when the chain was
// initialised in this run (the application's InitChain answer), else the finalization stored for
// InitialHeight-1 — and never the external genesis document, which InitChain may have overridden.
func engineInitialValidatorSet(r *Run, rule string) {
	w := r.W
	fn := w.Fn("tmengine.New")
	if fn == nil {
		r.Fail(rule, "anchor", "", "tmengine.New not found")
		return
	}
	a := w.AU(fn)
	n := 0
	a.Instrs(func(in ssa.Instruction) {
		st, ok := in.(*ssa.Store)
		if !ok || lastField(st.Addr) != "tmmirror.MirrorConfig.InitialValidatorSet" {
			return
		}
		n++
		v := a.sh.Of(st.Val).String()
		fromInit := strings.HasSuffix(v, ".Genesis.ValidatorSet") && !strings.Contains(v, ".genesis.")
		fromStore := strings.HasPrefix(v, "@@tmstore.FinalizationStore.LoadFinalizationByHeight(") && strings.HasSuffix(v, ".InitialHeight - 1))#2")
		r.Check(fromInit || fromStore, rule, fmt.Sprintf("tmengine.New#initial-validator-set%d", n), w.InstrPos(in),
			"the mirror's initial validator set is the chain's (InitChain result, or the finalization stored for InitialHeight-1), not the external genesis document: "+truncate(v, 160))
	})
	if n == 0 {
		r.Fail(rule, "tmengine.New#initial-validator-set", w.Pos(fn.Pos()), "the engine never sets the mirror's initial validator set")
	}
}

// viewIDOnlyWhenFound (C09.11): the mirror's vote handlers dispatch on the id of the looked-up
// view (whose default arm panics) only after the lookup reported ViewFound; every other status —
// including ViewWrongCommit, a later round of the committing height, which any peer can trigger —
// has returned a handler result before that.
func viewIDOnlyWhenFound(r *Run, rule string) {
	w := r.W
	n := 0
	for _, fn := range w.FuncsInPkg("tmengine/internal/tmmirror") {
		if !w.IsProd(fn) || fn.Parent() != nil || w.Folded(fn) {
			continue
		}
		a := w.A(fn)
		k := 0
		seen := map[*ssa.BasicBlock]bool{}
		isID := func(s string) bool {
			return strings.HasSuffix(s, ".ID") && strings.Contains(s, "tmi.ViewLookupRequest{")
		}
		a.Instrs(func(in ssa.Instruction) {
			use := false
			switch x := in.(type) {
			case *ssa.If:
				p := NormPred(a.sh.Of(x.Cond))
				use = p.Op == "==" && isID(p.L.String())
			case *ssa.Call:
				// the id handed to a classifying helper
				if cal := x.Call.StaticCallee(); cal != nil && strings.HasPrefix(pkgPathOf(cal), modPath) {
					for _, arg := range x.Call.Args {
						if isID(a.sh.Of(arg).String()) {
							use = true
						}
					}
				}
			}
			if !use {
				return
			}
			// one obligation per dispatch (the first use of the id)
			for b := range seen {
				if b == in.Block() || reach(b, nil)[in.Block()] {
					return
				}
			}
			seen[in.Block()] = true
			k++
			n++
			r.RequireGuards(a, rule, fmt.Sprintf("%s#view-id-dispatch%d", FuncName(fn), k), in,
				G{Name: "found", Pattern: "($r.Status == %tmi.ViewFound)", Holds: true})
		})
	}
	if n == 0 {
		r.Fail(rule, "census", "", "no dispatch on a looked-up view id found in the mirror")
	}
}

// storedCommitProofIsPrivate (C10.8 = C05.9 = C01.11): the commit proof recorded with a committed
// header is a private copy. The kernel recycles its views (Reset / ResetForSameHeight clear the
// PrevCommitProof map in place and the voting / next-round objects are swapped on a round
// advance), and a store may retain what it is given (the shipped in-memory store does), so a proof
// handed over by reference is emptied — or refilled with another height's signatures — by a later
// shift: the stored certificate for an already committed height changes after the fact.
func storedCommitProofIsPrivate(r *Run, rule string) {
	w := r.W
	n := 0
	for _, sv := range w.CallersOf(w.ProdFuncs(), "tmstore.CommittedHeaderStore.SaveCommittedHeader") {
		a := w.A(sv.Fn)
		arg := a.sh.Of(CallArg(sv.Instr, 2))
		n++
		fresh := false
		var proof *Shape
		if arg.K == "lit" {
			for i, f := range arg.F {
				if f == "Proof" {
					proof = arg.A[i]
				}
			}
		}
		if proof != nil {
			switch {
			case proof.K == "call" && strings.HasSuffix(proof.S, "CommitProof.Clone"):
				fresh = true
			case proof.K == "lit":
				for i, f := range proof.F {
					if f == "Proofs" {
						p := proof.A[i]
						fresh = p.K == "make" || (p.K == "call" && (p.S == "maps.Clone" || strings.HasSuffix(p.S, ".Clone")))
					}
				}
			}
		}
		shown := "<not a CommittedHeader literal>"
		if proof != nil {
			shown = proof.String()
		}
		r.Check(fresh, rule, fmt.Sprintf("%s#save%d(private-proof)", FuncName(w.Owner(sv.Fn)), n), w.InstrPos(sv.Instr),
			"the commit proof handed to the committed-header store is a private copy (Clone / freshly built map), not a map the kernel's recycled views still own: "+truncate(shown, 160))
	}
	if n == 0 {
		r.Fail(rule, "callers(SaveCommittedHeader)", "", "no production caller of CommittedHeaderStore.SaveCommittedHeader")
	}
}

// forcedViewDiscipline (C11.7): the state-machine view manager's force-send slot is offered by
// Output without a height/round test and its version becomes lastSentVersion. That is only sound
// if a pinned view can never outlive the round entrance it was pinned for: either nothing in
// production pins a view (today: ForceSend has no caller), or Reset clears the slot on every
// round entrance. Otherwise a view of the round just left is delivered after the state machine
// entered the next round and its (larger) version suppresses that round's updates.
func forcedViewDiscipline(r *Run, rule string) {
	w := r.W
	fns := tmiFuncs(w)
	var producers []string
	for _, fw := range w.FieldWrites(fns, "tmi.stateMachineViewManager", "forceSend") {
		if fw.Kind != "store" {
			continue
		}
		if st, ok := fw.Instr.(*ssa.Store); ok && w.A(fw.Fn).sh.Of(st.Val).String() == "nil" {
			continue
		}
		// a non-nil store: who can trigger it?
		callers := w.CallersOf(w.ProdFuncs(), FuncName(fw.Fn))
		for _, c := range callers {
			producers = append(producers, FuncName(w.Owner(c.Fn))+" -> "+FuncName(fw.Fn))
		}
		if fw.Fn.Signature.Recv() == nil || !strings.HasSuffix(FuncName(fw.Fn), ".ForceSend") {
			producers = append(producers, FuncName(fw.Fn)+" (direct store)")
		}
	}
	cleared := false
	if fn := w.Fn("tmi.stateMachineViewManager.Reset"); fn != nil {
		a := w.AU(fn)
		a.Instrs(func(in ssa.Instruction) {
			st, ok := in.(*ssa.Store)
			if !ok || lastField(st.Addr) != "tmi.stateMachineViewManager.forceSend" || a.sh.Of(st.Val).String() != "nil" {
				return
			}
			all := true
			for _, ret := range a.Returns() {
				if !Dominates(in, ret) {
					all = false
				}
			}
			cleared = cleared || all
		})
	}
	r.Check(len(producers) == 0 || cleared, rule, "tmi.stateMachineViewManager(force-send-slot)", "",
		fmt.Sprintf("a pinned view never outlives its round entrance: producers=%v, cleared by Reset=%v", producers, cleared))
}

// positionPersistedAfterMove (C04.10): every kernel call of a kState method that moves the voting
// position (shift to committing, advance or jump of the voting round) is followed, on every path
// on which the calling function goes on to return success, by the observer update that persists
// the position. Otherwise the live position runs ahead of the stored one and a restart moves the
// voting position backwards.
func positionPersistedAfterMove(r *Run, rule string) {
	w := r.W
	movers := []string{"tmi.kState.ShiftVotingToCommitting", "tmi.kState.AdvanceVotingRound", "tmi.kState.JumpVotingRound"}
	persists := func(in ssa.Instruction) bool {
		c := callCommon(in)
		if c == nil {
			return false
		}
		_, n := calleeName(c)
		return n == "tmi.Kernel.updateObservers" || n == "tmstore.MirrorStore.SetNetworkHeightRound"
	}
	n := 0
	for _, cs := range w.CallersOf(tmiFuncs(w), movers...) {
		if !w.IsProd(cs.Fn) || strings.HasPrefix(FuncName(cs.Fn), "tmi.kState.") {
			continue
		}
		n++
		fn := cs.Fn
		errIdx := -1
		if res := fn.Signature.Results(); res.Len() > 0 && res.At(res.Len()-1).Type().String() == "error" {
			errIdx = res.Len() - 1
		}
		// walk from the call; a path is satisfied by a persisting call, by a panic, or by a
		// return of a non-nil error (the kernel stops on it)
		var bad ssa.Instruction
		seen := map[*ssa.BasicBlock]bool{}
		var walk func(b *ssa.BasicBlock, from int)
		walk = func(b *ssa.BasicBlock, from int) {
			for i := from; i < len(b.Instrs); i++ {
				in := b.Instrs[i]
				if persists(in) {
					return
				}
				if ret, ok := in.(*ssa.Return); ok {
					if errIdx >= 0 {
						// an internal failure (a store or kernel helper's error, propagated): the kernel
						// stops on it. An error that merely answers the requester (a rejected replay) does
						// not stop the kernel and is judged like a success return.
						if c, isC := ret.Results[errIdx].(*ssa.Const); !isC || !c.IsNil() {
							es := w.A(fn).sh.Of(ret.Results[errIdx]).String()
							if strings.Contains(es, "@@tmstore.") || strings.Contains(es, "@tmi.Kernel.") {
								return
							}
						}
					}
					if bad == nil {
						bad = ret
					}
					return
				}
			}
			for _, s := range b.Succs {
				if !seen[s] {
					seen[s] = true
					walk(s, 0)
				}
			}
		}
		walk(cs.Instr.Block(), instrIndex(cs.Instr)+1)
		_, callee := calleeName(callCommon(cs.Instr))
		det := "position move " + callee + " is followed by the observer update that persists it"
		pos := w.InstrPos(cs.Instr)
		if bad != nil {
			det += " — success return reached without it at " + w.InstrPos(bad)
		}
		r.Check(bad == nil, rule, fmt.Sprintf("%s#%s", FuncName(w.Owner(fn)), strings.TrimPrefix(callee, "tmi.kState.")), pos, det)
	}
	if n < 3 {
		r.Fail(rule, "census", "", fmt.Sprintf("only %d kernel call sites of the position-moving kState methods found (3 expected)", n))
	}
}

// decidePrecommitTriggers (C08.9): the strategy is asked for its precommit only on one of the
// Tendermint triggers. Every site that sends a DecidePrecommitRequest lies, on every path, behind
// one of: a prevote majority for a single target, precommit power present at or above a Byzantine
// threshold, the prevote-delay step in the timer handler, or the AwaitingPrecommits classification
// at round entry. "Every validator has prevoted" without a majority for one target is not a
// trigger (the prevote delay has to run).
func decidePrecommitTriggers(r *Run, rule string) {
	w := r.W
	alts := []G{
		{Name: "prevote-majority", Pattern: "($s.PrevoteBlockPower[$s.MostVotedPrevoteHash] < @tmconsensus.ByzantineMajority($s.AvailablePower))", Holds: false},
		{Name: "precommit-majority-present", Pattern: "($s.TotalPrecommitPower < @tmconsensus.ByzantineMajority($s.AvailablePower))", Holds: false},
		{Name: "precommit-minority-present", Pattern: "($s.TotalPrecommitPower < @tmconsensus.ByzantineMinority($s.AvailablePower))", Holds: false},
		{Name: "prevote-delay-elapsed", Pattern: "($r.S == %tsi.StepPrevoteDelay)", Holds: true},
		{Name: "entry-classification", Pattern: "(@tsi.GetStepFromVoteSummary($...) == %tsi.StepAwaitingPrecommits)", Holds: true},
	}
	n := 0
	ord := Ord{}
	for _, fn := range w.FuncsInPkg("tmengine/internal/tmstate") {
		if !w.IsProd(fn) || fn.Parent() != nil || w.Folded(fn) {
			continue
		}
		a := w.A(fn)
		for _, s := range a.Sends() {
			if !strings.HasSuffix(TypeName(s.Val.Type()), "tsi.DecidePrecommitRequest") {
				continue
			}
			established := func(fa *FnA, at ssa.Instruction) string {
				for _, g := range alts {
					e, _ := fa.IfEdges(g.Pattern, g.Holds, nil)
					if len(e) > 0 && fa.EveryPathTakes(at, e) {
						return g.Name
					}
				}
				return ""
			}
			which := established(a, s.Instr)
			if which == "" {
				// a sending helper shared by several sites: the trigger is established at each call
				if callers := w.CallersOf(w.ProdFuncs(), FuncName(fn)); len(callers) > 0 {
					for _, c := range callers {
						n++
						cw := established(w.A(c.Fn), c.Instr)
						r.Check(cw != "", rule, ord.Next(FuncName(c.Fn)+"#decide-precommit"), w.InstrPos(c.Instr),
							"the precommit decision is requested (through "+FuncName(fn)+") only behind a Tendermint trigger; established: "+cw)
					}
					continue
				}
			}
			n++
			r.Check(which != "", rule, ord.Next(FuncName(fn)+"#decide-precommit"), w.InstrPos(s.Instr),
				"the precommit decision is requested only behind a Tendermint trigger (prevote majority for one target / precommit power at a threshold / prevote delay elapsed / entry classification); established: "+which)
		}
	}
	if n < 6 {
		r.Fail(rule, "census", "", fmt.Sprintf("%d DecidePrecommitRequest send sites found, 6 confirmed by reading", n))
	}
}

// ---- C06.6 reset completeness of recycled views

// resetPaths collects the receiver-relative field paths a reset method clears: stores of constants /
// zero values / re-slices of the field itself, clear(field), and reset methods called on the
// receiver or on one of its fields (followed, depth <= 3).
func resetPaths(w *World, fn *ssa.Function, prefix string, depth int, out map[string]bool) {
	if fn == nil || depth > 3 {
		return
	}
	a := w.A(fn)
	rel := func(s string) (string, bool) {
		if s == "p0" {
			return prefix, true
		}
		if strings.HasPrefix(s, "p0.") && !strings.ContainsAny(s, "([") {
			p := strings.TrimPrefix(s, "p0.")
			if prefix != "" {
				p = prefix + "." + p
			}
			return p, true
		}
		return "", false
	}
	a.Instrs(func(in ssa.Instruction) {
		switch x := in.(type) {
		case *ssa.Store:
			if p, ok := rel(a.sh.Of(x.Addr).String()); ok && p != "" {
				v := a.sh.Of(x.Val)
				if v.K == "const" || strings.HasPrefix(v.String(), "zero:") || v.String() == "nil" || v.K == "slice" {
					out[p] = true
				}
			}
		case *ssa.Call:
			_, n := calleeName(&x.Call)
			if n == "clear" && len(x.Call.Args) == 1 {
				if p, ok := rel(a.sh.Of(x.Call.Args[0]).String()); ok && p != "" {
					out[p] = true
				}
				return
			}
			if cal := x.Call.StaticCallee(); cal != nil && strings.Contains(strings.ToLower(cal.Name()), "reset") && len(x.Call.Args) >= 1 {
				if p, ok := rel(a.sh.Of(x.Call.Args[0]).String()); ok {
					resetPaths(w, cal, p, depth+1, out)
				}
			}
		}
	})
}

// leafPaths lists the field paths of a struct type, descending into the nested view structs.
func leafPaths(t types.Type, prefix string, out *[]string) {
	st, ok := t.Underlying().(*types.Struct)
	if !ok {
		*out = append(*out, prefix)
		return
	}
	tn := typeBaseName(t)
	descend := prefix == "" || tn == "RoundView" || tn == "VoteSummary" || tn == "CommitProof"
	if !descend {
		*out = append(*out, prefix)
		return
	}
	for i := 0; i < st.NumFields(); i++ {
		f := st.Field(i)
		p := f.Name()
		if prefix != "" {
			p = prefix + "." + p
		}
		leafPaths(f.Type(), p, out)
	}
}

func resetCompleteness(r *Run, rule string) {
	w := r.W
	// kept on purpose by the same-height variants (documented on the methods)
	keepSameHeight := []string{"Height", "ValidatorSet", "PrevCommitProof", "AvailablePower", "VoteSummary.AvailablePower", "RoundView.Height", "RoundView.ValidatorSet", "RoundView.PrevCommitProof", "RoundView.VoteSummary.AvailablePower"}
	for _, m := range []struct {
		fn, typ string
		same    bool
	}{
		{"tmconsensus.VoteSummary.ResetForSameHeight", "tmconsensus.VoteSummary", true},
		{"tmconsensus.VoteSummary.Reset", "tmconsensus.VoteSummary", false},
		{"tmconsensus.RoundView.ResetForSameHeight", "tmconsensus.RoundView", true},
		{"tmconsensus.RoundView.Reset", "tmconsensus.RoundView", false},
		{"tmconsensus.VersionedRoundView.ResetForSameHeight", "tmconsensus.VersionedRoundView", true},
		{"tmconsensus.VersionedRoundView.Reset", "tmconsensus.VersionedRoundView", false},
	} {
		fn := w.Fn(m.fn)
		nt := w.LookupType(m.typ)
		if fn == nil || nt == nil {
			r.Fail(rule, m.fn, "", "reset method or its type not found")
			continue
		}
		got := map[string]bool{}
		resetPaths(w, fn, "", 0, got)
		var leaves []string
		leafPaths(nt, "", &leaves)
		var missing []string
		for _, l := range leaves {
			covered := false
			for p := range got {
				if l == p || strings.HasPrefix(l, p+".") {
					covered = true
				}
			}
			if covered {
				continue
			}
			kept := false
			if m.same {
				for _, k := range keepSameHeight {
					if l == k || strings.HasPrefix(l, k+".") {
						kept = true
					}
				}
			}
			if !kept {
				missing = append(missing, l)
			}
		}
		r.Check(len(missing) == 0, rule, m.fn, w.Pos(fn.Pos()), fmt.Sprintf("a recycled view starts its next round empty: %d field paths cleared; not cleared: %v", len(got), missing))
	}
}

// ---- buffer aliasing (C14.5, C01.12 = C05.10)

var aliasPreserving = map[string]bool{"bytes.TrimSuffix": true, "bytes.TrimPrefix": true, "bytes.TrimSpace": true, "bytes.TrimRight": true, "bytes.TrimLeft": true, "bytes.Trim": true, "bytes.TrimFunc": true, "slices.Clip": true}

// sliceAliases: v and everything that shares its backing array inside the function.
func sliceAliases(v ssa.Value) map[ssa.Value]bool {
	out := map[ssa.Value]bool{v: true}
	work := []ssa.Value{v}
	for len(work) > 0 {
		x := work[len(work)-1]
		work = work[:len(work)-1]
		refs := x.Referrers()
		if refs == nil {
			continue
		}
		for _, ref := range *refs {
			var nv ssa.Value
			switch y := ref.(type) {
			case *ssa.Slice:
				if y.X == x {
					nv = y
				}
			case *ssa.Phi:
				nv = y
			case *ssa.ChangeType:
				nv = y
			case *ssa.Call:
				if _, n := calleeName(&y.Call); aliasPreserving[n] && len(y.Call.Args) > 0 && y.Call.Args[0] == x {
					nv = y
				}
			case *ssa.Store:
				// spilled local: follow loads of a local variable cell
				if al, ok := y.Addr.(*ssa.Alloc); ok && y.Val == x && al.Referrers() != nil {
					for _, r2 := range *al.Referrers() {
						if ld, ok := r2.(*ssa.UnOp); ok && ld.Op == token.MUL && !out[ld] {
							out[ld] = true
							work = append(work, ld)
						}
					}
				}
			}
			if nv != nil && !out[nv] {
				out[nv] = true
				work = append(work, nv)
			}
		}
	}
	return out
}

// retainsParam: does fn keep its idx-th parameter (a slice) beyond the call — stored into a field,
// element, map or channel, or handed to a module function that does (depth <= 2)?
func retainsParam(w *World, fn *ssa.Function, idx, depth int) bool {
	if fn == nil || fn.Blocks == nil || idx >= len(fn.Params) || depth > 2 || !strings.HasPrefix(pkgPathOf(fn), "github.com/gordian-engine/gordian") {
		return false
	}
	al := sliceAliases(fn.Params[idx])
	ret := false
	for _, b := range fn.Blocks {
		for _, in := range b.Instrs {
			switch x := in.(type) {
			case *ssa.Store:
				if al[x.Val] {
					if _, local := x.Addr.(*ssa.Alloc); !local {
						ret = true
					}
				}
			case *ssa.MapUpdate:
				if al[x.Value] {
					ret = true
				}
			case *ssa.Send:
				if al[x.X] {
					ret = true
				}
			case *ssa.Call:
				if cal := x.Call.StaticCallee(); cal != nil {
					for i, a := range x.Call.Args {
						if al[a] && retainsParam(w, cal, i, depth+1) {
							ret = true
						}
					}
				}
			}
		}
	}
	return ret
}

// implementersOf: concrete module methods an interface invoke may dispatch to.
func implementersOf(w *World, c *ssa.CallCommon) []*ssa.Function {
	var out []*ssa.Function
	if !c.IsInvoke() {
		return nil
	}
	iface, ok := c.Value.Type().Underlying().(*types.Interface)
	if !ok {
		return nil
	}
	for _, fn := range w.AllFuncs {
		if fn.Name() != c.Method.Name() || fn.Signature.Recv() == nil || fn.Blocks == nil {
			continue
		}
		rt := fn.Signature.Recv().Type()
		if types.Implements(rt, iface) || types.Implements(types.NewPointer(rt), iface) {
			out = append(out, fn)
		}
	}
	return out
}

// bufferAliasing: a slice that shares the backing array of a bytes.Buffer (Bytes(), re-sliced or
// trimmed, never copied) must not outlive the buffer's next use: it is not returned from a function
// whose buffer goes back to a sync.Pool, and it is not retained (stored, or passed to a callee that
// keeps it — e.g. a signature proof keeps its message) while the same buffer is reset or written
// again afterwards. pkgs limits the functions inspected.
func bufferAliasing(r *Run, rule string, pkgs ...string) {
	w := r.W
	inScope := func(fn *ssa.Function) bool {
		if !w.IsProd(fn) {
			return false
		}
		if len(pkgs) == 0 {
			return true
		}
		for _, p := range pkgs {
			if strings.HasSuffix(pkgPathOf(fn), p) {
				return true
			}
		}
		return false
	}
	sites, bad := 0, 0
	for _, fn := range w.AllFuncs {
		if !inScope(fn) || fn.Blocks == nil {
			continue
		}
		k := 0
		for _, b := range fn.Blocks {
			for _, in := range b.Instrs {
				c, ok := in.(*ssa.Call)
				if !ok {
					continue
				}
				if _, n := calleeName(&c.Call); n != "bytes.Buffer.Bytes" || len(c.Call.Args) == 0 {
					continue
				}
				sites++
				buf := c.Call.Args[0]
				pooled := false
				if ta, ok := buf.(*ssa.TypeAssert); ok {
					if pc, ok := ta.X.(*ssa.Call); ok {
						if _, n := calleeName(&pc.Call); n == "sync.Pool.Get" {
							pooled = true
						}
					}
				}
				// is the same buffer reset / written again after this point?
				reused := false
				if refs := buf.Referrers(); refs != nil {
					for _, ref := range *refs {
						rc, ok := ref.(ssa.Instruction)
						if !ok || rc == in {
							continue
						}
						cc := callCommon(rc)
						if cc == nil {
							continue
						}
						_, n := calleeName(cc)
						isWrite := n == "bytes.Buffer.Reset" || strings.HasPrefix(n, "bytes.Buffer.Write") || n == "bytes.Buffer.Truncate"
						if !isWrite {
							// handed to a writer (fmt.Fprintf(buf, ...), scheme.Write*(buf, ...))
							for _, a := range cc.Args {
								if mi, ok := a.(*ssa.MakeInterface); ok && mi.X == buf {
									isWrite = true
								}
							}
						}
						if isWrite && ReachesAfter(in, rc) {
							reused = true
						}
					}
				}
				// a buffer passed by MakeInterface elsewhere: also look at its interface boxes
				al := sliceAliases(c)
				reported := map[ssa.Instruction]bool{}
				fail := func(what string, at ssa.Instruction) {
					if reported[at] {
						return
					}
					reported[at] = true
					k++
					bad++
					r.Fail(rule, fmt.Sprintf("%s#buffer-alias%d", FuncName(topParent(fn)), k), w.InstrPos(at), what)
				}
				for v := range al {
					refs := v.Referrers()
					if refs == nil {
						continue
					}
					for _, ref := range *refs {
						switch x := ref.(type) {
						case *ssa.Return:
							if pooled {
								fail("a slice sharing the backing array of a pooled bytes.Buffer is returned; the next user of the pool overwrites it", x)
							}
						case *ssa.Store:
							if _, local := x.Addr.(*ssa.Alloc); !local && x.Val == v && (pooled || reused) {
								fail("a slice sharing a bytes.Buffer's backing array is stored while the buffer is reused", x)
							}
						case *ssa.MapUpdate:
							if x.Value == v && (pooled || reused) {
								fail("a slice sharing a bytes.Buffer's backing array is stored in a map while the buffer is reused", x)
							}
						case *ssa.Call:
							if !(pooled || reused) {
								continue
							}
							if _, n := calleeName(&x.Call); aliasPreserving[n] {
								continue
							}
							for i, a := range x.Call.Args {
								if a != v {
									continue
								}
								keeps := false
								if cal := x.Call.StaticCallee(); cal != nil {
									keeps = retainsParam(w, cal, i, 0)
								} else {
									for _, impl := range implementersOf(w, &x.Call) {
										if retainsParam(w, impl, i+1, 0) {
											keeps = true
										}
									}
								}
								if keeps {
									fail("a slice sharing a bytes.Buffer's backing array is passed to "+a0(x)+", which keeps it, while the buffer is reset and rewritten afterwards (the kept message changes under the holder)", x)
								}
							}
						}
					}
				}
			}
		}
	}
	r.Check(sites > 0 || len(pkgs) > 0, rule, "census", "", fmt.Sprintf("%d bytes.Buffer.Bytes() sites inspected, %d with an escaping alias", sites, bad))
}

func a0(c *ssa.Call) string {
	_, n := calleeName(&c.Call)
	return n
}

// signBytesAreWholeContent (C15.6): the sign bytes handed to signers and verifiers are everything
// the scheme wrote. Either the helpers in tmconsensus return the whole buffer (today), or, if they
// cut it by the count the scheme reports, every write of the shipped scheme must be added into the
// count it returns on success — otherwise a trailing section (the proposal annotations) silently
// drops out of what is signed, and two proposals differing only there share their sign bytes.
func signBytesAreWholeContent(r *Run, rule string) {
	w := r.W
	var cut ssa.Instruction
	var cutFn *ssa.Function
	nBytes := 0
	for _, fn := range w.AllFuncs {
		if !w.IsProd(fn) || fn.Blocks == nil || pkgPathOf(fn) != "github.com/gordian-engine/gordian/tm/tmconsensus" {
			continue
		}
		for _, b := range fn.Blocks {
			for _, in := range b.Instrs {
				c, ok := in.(*ssa.Call)
				if !ok {
					continue
				}
				if _, n := calleeName(&c.Call); n != "bytes.Buffer.Bytes" {
					continue
				}
				nBytes++
				for v := range sliceAliases(c) {
					if sl, ok := v.(*ssa.Slice); ok && (sl.High != nil || sl.Low != nil) {
						cut, cutFn = sl, fn
					}
				}
			}
		}
	}
	if nBytes == 0 {
		r.Fail(rule, "tmconsensus(sign-bytes-helpers)", "", "no buffer read-out found in the sign-bytes helpers")
		return
	}
	if cut == nil {
		r.Pass(rule, "tmconsensus(sign-bytes-helpers)", "", fmt.Sprintf("%d buffer read-outs, none cut by a count: the sign bytes are the whole written content", nBytes))
		return
	}
	// the helpers cut the content: the scheme's reported count must be exact
	allExact := true
	for _, mname := range []string{"WriteProposalSigningContent", "WritePrevoteSigningContent", "WritePrecommitSigningContent"} {
		fn := w.Fn("tmconsensustest.SimpleSignatureScheme." + mname)
		if fn == nil {
			continue
		}
		a := w.A(fn)
		for _, wr := range fmtWrites(a) {
			wv, ok := wr.(ssa.Value)
			if !ok {
				continue
			}
			for _, ret := range a.Returns() {
				if !ReachesAfter(wr, ret) && wr.Block() != ret.Block() {
					continue
				}
				if len(ret.Results) != 2 {
					continue
				}
				if c, isC := ret.Results[1].(*ssa.Const); !isC || !c.IsNil() {
					continue // error return
				}
				// count closure of the returned value
				seen := map[ssa.Value]bool{}
				var walk func(v ssa.Value) bool
				walk = func(v ssa.Value) bool {
					if seen[v] {
						return false
					}
					seen[v] = true
					switch x := v.(type) {
					case *ssa.Extract:
						return x.Tuple == wv && x.Index == 0
					case *ssa.Phi:
						for _, e := range x.Edges {
							if walk(e) {
								return true
							}
						}
					case *ssa.BinOp:
						if x.Op == token.ADD {
							return walk(x.X) || walk(x.Y)
						}
					case *ssa.UnOp:
						if x.Op == token.MUL {
							if rs := reachingStore(x); rs != nil {
								return walk(rs)
							}
						}
					}
					return false
				}
				// direct `return fmt.Fprintf(...)`: the tuple itself is returned
				direct := false
				if ex, ok := ret.Results[0].(*ssa.Extract); ok && ex.Tuple == wv {
					direct = true
				}
				if !direct && !walk(ret.Results[0]) {
					allExact = false
					r.Fail(rule, "tmconsensustest.SimpleSignatureScheme."+mname+"(count)", w.InstrPos(wr),
						"the sign-bytes helpers cut the content at the count the scheme reports ("+w.InstrPos(cut)+" in "+FuncName(topParent(cutFn))+"), but this write's byte count is not added into the count returned on success: the section it writes is not signed")
				}
			}
		}
	}
	if allExact {
		r.Pass(rule, "tmconsensus(sign-bytes-helpers)", w.InstrPos(cut), "content cut at the scheme's count; every write of the shipped scheme is counted")
	}
}

// exactIndexArithmetic (C13.8): the combination index of a finalized BLS proof is computed in
// arbitrary precision. A machine-word product or shift feeding a big.Int (SetUint64 / SetInt64 /
// NewInt) can wrap for key-set sizes no shipped test uses, after which encode and decode disagree
// and a validly finalized proof no longer validates back to its signers. Word-sized additions and
// subtractions of indices (bounded by the key count) are fine; a product is accepted only behind
// an explicit overflow test on its operands (x > max/y form) or when computed by math/bits.
func exactIndexArithmetic(r *Run, rule string) {
	w := r.W
	sinks, bad := 0, 0
	for _, fn := range w.FuncsInPkg("gcrypto/gblsminsig") {
		if !w.IsProd(fn) || fn.Blocks == nil {
			continue
		}
		a := w.A(fn)
		k := 0
		for _, b := range fn.Blocks {
			for _, in := range b.Instrs {
				c, ok := in.(*ssa.Call)
				if !ok {
					continue
				}
				_, n := calleeName(&c.Call)
				var args []ssa.Value
				switch n {
				case "big.Int.SetUint64", "big.Int.SetInt64":
					args = c.Call.Args[1:]
				case "big.NewInt":
					args = c.Call.Args
				default:
					continue
				}
				sinks++
				for _, arg := range args {
					var off *ssa.BinOp
					seen := map[ssa.Value]bool{}
					var walk func(v ssa.Value)
					walk = func(v ssa.Value) {
						if v == nil || seen[v] || off != nil {
							return
						}
						seen[v] = true
						switch x := v.(type) {
						case *ssa.BinOp:
							if x.Op == token.MUL || x.Op == token.SHL {
								if _, cx := x.X.(*ssa.Const); cx {
									if _, cy := x.Y.(*ssa.Const); cy {
										return
									}
								}
								off = x
								return
							}
							walk(x.X)
							walk(x.Y)
						case *ssa.Phi:
							for _, e := range x.Edges {
								walk(e)
							}
						case *ssa.Convert:
							walk(x.X)
						case *ssa.ChangeType:
							walk(x.X)
						case *ssa.UnOp:
							if x.Op == token.MUL {
								if rs := reachingStore(x); rs != nil {
									walk(rs)
								}
							} else {
								walk(x.X)
							}
						}
					}
					walk(arg)
					if off == nil {
						continue
					}
					// accepted: an overflow test of the form (x > C / y) guards the product
					guarded := false
					a.Instrs(func(gi ssa.Instruction) {
						if ifi, ok := gi.(*ssa.If); ok {
							s := a.sh.Of(ifi.Cond).String()
							if strings.Contains(s, " / ") && (strings.Contains(s, "18446744073709551615") || strings.Contains(s, "9223372036854775807") || strings.Contains(s, "math.Max")) && Dominates(ifi, off) {
								guarded = true
							}
						}
					})
					if guarded {
						continue
					}
					k++
					bad++
					r.Fail(rule, fmt.Sprintf("%s#word-product%d", FuncName(topParent(fn)), k), w.InstrPos(off),
						"a machine-word product/shift ("+truncate(a.sh.Of(off).String(), 80)+") feeds a big.Int of the combination-index arithmetic without an overflow test; it wraps for mid-sized key sets (e.g. C(n,k)*k beyond 2^64 for n >= 63)")
				}
			}
		}
	}
	r.Check(sinks > 0, rule, "census", "", fmt.Sprintf("%d word-to-big.Int conversions in gblsminsig, %d fed by an unguarded machine-word product", sinks, bad))
}

// viewCloneIndependence (C11.8): what the kernel publishes is Clone() of its views (C11.2/C11.3);
// that only isolates consumers if Clone itself shares no mutable storage with the original. For
// the Clone methods of the view types: every field of the type is present in the returned value;
// a field holding a map or slice (directly or inside a nested view struct) is never the
// receiver's own field or a re-slice of it; maps are filled with cloned / freshly made elements.
// ValidatorSet is shared on purpose: validator sets are immutable once built (they are replaced,
// never edited — C07.1 lists every store).
func viewCloneIndependence(r *Run, rule string) {
	w := r.W
	hasRef := func(t types.Type) bool { return false }
	var refDepth func(t types.Type, d int) bool
	refDepth = func(t types.Type, d int) bool {
		if d > 4 {
			return false
		}
		switch u := t.Underlying().(type) {
		case *types.Map, *types.Slice, *types.Pointer, *types.Chan:
			return true
		case *types.Interface:
			return true
		case *types.Struct:
			for i := 0; i < u.NumFields(); i++ {
				if refDepth(u.Field(i).Type(), d+1) {
					return true
				}
			}
		}
		return false
	}
	hasRef = func(t types.Type) bool { return refDepth(t, 0) }
	shared := map[string]string{"ValidatorSet": "validator sets are immutable values, replaced wholesale and never edited in place"}
	for _, name := range []string{"tmconsensus.RoundView.Clone", "tmconsensus.VersionedRoundView.Clone", "tmconsensus.VoteSummary.Clone", "tmconsensus.CommitProof.Clone", "tmconsensus.PrevoteSparseProof.Clone", "tmconsensus.PrecommitSparseProof.Clone"} {
		fn := w.Fn(name)
		if fn == nil {
			r.Fail(rule, name, "", "Clone method not found")
			continue
		}
		a := w.AU(fn)
		rt, _ := fn.Signature.Results().At(0).Type().Underlying().(*types.Struct)
		var problems []string
		nret := 0
		for _, ret := range a.Returns() {
			v := a.sh.Of(ret.Results[0])
			if v.K != "lit" {
				problems = append(problems, "result is not built field by field: "+truncate(v.String(), 80))
				continue
			}
			nret++
			got := map[string]*Shape{}
			for i, f := range v.F {
				got[f] = v.A[i]
			}
			for i := 0; rt != nil && i < rt.NumFields(); i++ {
				f := rt.Field(i)
				val, ok := got[f.Name()]
				if !ok {
					problems = append(problems, "field "+f.Name()+" is not copied")
					continue
				}
				if !hasRef(f.Type()) || shared[f.Name()] != "" {
					continue
				}
				s := val
				for s.K == "slice" && len(s.A) > 0 {
					s = s.A[0]
				}
				if s.K == "fld" || s.K == "param" || s.K == "load" {
					problems = append(problems, "field "+f.Name()+" shares the receiver's storage: "+truncate(val.String(), 80))
				}
			}
		}
		// map elements are cloned or freshly made
		a.Instrs(func(in ssa.Instruction) {
			mu, ok := in.(*ssa.MapUpdate)
			if !ok {
				return
			}
			if et := mu.Value.Type(); !hasRef(et) {
				return
			}
			v := a.sh.Of(mu.Value)
			fresh := v.K == "make" || ((v.K == "call" || v.K == "invoke") && strings.HasSuffix(v.S, "Clone"))
			if !fresh {
				problems = append(problems, "map element stored without cloning: "+truncate(v.String(), 80))
			}
		})
		if nret == 0 && len(problems) == 0 {
			problems = append(problems, "no return found")
		}
		r.Check(len(problems) == 0, rule, name, w.Pos(fn.Pos()), "the copy shares no mutable storage with the original"+func() string {
			if len(problems) == 0 {
				return ""
			}
			return ": " + strings.Join(problems, "; ")
		}())
	}
}

// closureComparesHeaderHash: c is a predicate closure `func(ph) bool { return ph.Header.Hash == h }`
// whose captured h is, in the enclosing function, the voting view's most voted precommit hash.
func closureComparesHeaderHash(w *World, a *FnA, c *Shape) bool {
	if c == nil || !strings.HasPrefix(c.String(), "closure:") {
		return false
	}
	name := strings.TrimPrefix(c.String(), "closure:")
	var fn *ssa.Function
	for _, f := range w.AllFuncs {
		if f.Parent() != nil && FuncName(f) == name {
			fn = f
		}
	}
	if fn == nil || len(fn.FreeVars) == 0 {
		return false
	}
	ca := w.A(fn)
	fv := ""
	for _, ret := range ca.Returns() {
		p := NormPred(ca.sh.Of(ret.Results[0]))
		if p.Op != "==" || p.Neg {
			return false
		}
		l, rr := p.L.String(), p.R.String()
		if rr == "p0.Header.Hash" {
			l, rr = rr, l
		}
		if l != "p0.Header.Hash" || !strings.HasPrefix(rr, "^") {
			return false
		}
		fv = strings.TrimPrefix(rr, "^")
	}
	if fv == "" {
		return false
	}
	// the captured variable's value in the enclosing function
	ok := false
	a.Instrs(func(in ssa.Instruction) {
		mc, isMC := in.(*ssa.MakeClosure)
		if !isMC || mc.Fn != ssa.Value(fn) {
			return
		}
		for i, free := range fn.FreeVars {
			if free.Name() != fv || i >= len(mc.Bindings) {
				continue
			}
			al, isAl := mc.Bindings[i].(*ssa.Alloc)
			if !isAl || al.Referrers() == nil {
				continue
			}
			stores, good := 0, 0
			for _, ref := range *al.Referrers() {
				if st, isSt := ref.(*ssa.Store); isSt && st.Addr == ssa.Value(al) {
					stores++
					v := a.sh.Of(st.Val).String()
					if strings.HasSuffix(v, ".VoteSummary.MostVotedPrecommitHash") && strings.Contains(v, ".Voting.") {
						good++
					}
				}
			}
			ok = stores > 0 && stores == good
		}
	})
	return ok
}
