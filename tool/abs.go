package main

import (
	"fmt"
	"go/token"
	"sort"
	"strings"

	"golang.org/x/tools/go/ssa"
)

// ABS: a small abstract interpreter over the SSA of the state machine's event
// handlers (DESIGN.md §2.4). It tracks the round lifecycle's step, the step
// timer typestate and a few mode flags through stores, calls and branches on
// tracked values; every other branch forks. Callees that receive the same
// *RoundLifecycle are interpreted recursively with memoised summaries and a
// fixpoint over the one recursive cycle.

type absState struct {
	S     int8 // tsi.Step value, -1 unknown
	TS    bool // rlc.StepTimer non-nil
	TC    bool // rlc.CancelTimer non-nil
	Run   bool // a timer is armed and not cancelled
	CU    bool // catching up (MarkCatchingUp since the last Reset)
	Reset bool // Reset happened on this path
	Dec   int8 // DecidePrecommit requests since the last Reset on this path (saturating at 2)
	Cho   int8 // ChooseProposedBlock requests since the last Reset on this path (saturating at 2)
	Arm   int8 // step the most recently armed timer belongs to (0 none)
	Quit  bool // a callee reported failure (context cancelled, store error) on this path: the kernel is about to stop
}

func (s absState) String() string {
	return fmt.Sprintf("{S=%s TS=%v TC=%v Run=%v CU=%v Reset=%v Dec=%d Cho=%d Arm=%s Quit=%v}", stepName(s.S), s.TS, s.TC, s.Run, s.CU, s.Reset, s.Dec, s.Cho, stepName(s.Arm), s.Quit)
}

var stepNames = []string{"Invalid", "AwaitingProposal", "AwaitingPrevotes", "PrevoteDelay", "AwaitingPrecommits", "PrecommitDelay", "CommitWait", "AwaitingFinalization"}

func stepName(s int8) string {
	if s >= 0 && int(s) < len(stepNames) {
		return stepNames[s]
	}
	return "?"
}

func timedStep(s int8) bool { return s == 1 || s == 3 || s == 5 || s == 6 }

type absOut struct {
	St  absState
	Ret int8 // -1 unknown / not bool, 0 false, 1 true
}

type absViolation struct {
	Kind  string
	Pos   string
	Fn    string
	State absState
}

type absEngine struct {
	w        *World
	memo     map[string]map[absOut]bool
	inProg   map[string]bool
	changed  bool
	viol     map[string]absViolation
	stepRes  []int8 // steps returnable by GetStepFromVoteSummary
	doneIter map[string]int
	iterNo   int
	explored int
	timerFor map[string]int8
	events   map[string]bool // effect tokens observed anywhere under the current entry
	cuNils   map[string]bool // lifecycle channel fields MarkCatchingUp sets to nil
	relevant map[*ssa.Function]bool
}

const (
	vNil    = 100
	vNonNil = 101
	vTimer  = 102
)

func newAbsEngine(w *World) *absEngine {
	e := &absEngine{w: w, memo: map[string]map[absOut]bool{}, inProg: map[string]bool{}, viol: map[string]absViolation{}, doneIter: map[string]int{}, events: map[string]bool{}}
	if fn := w.Fn("tsi.GetStepFromVoteSummary"); fn != nil {
		for _, c := range w.ResultConsts(fn, 0).Sorted() {
			for i, n := range stepNames {
				if c == "%tsi.Step"+n {
					e.stepRes = append(e.stepRes, int8(i))
				}
			}
		}
	}
	e.cuNils = map[string]bool{}
	if fn := w.Fn("tsi.RoundLifecycle.MarkCatchingUp"); fn != nil {
		for _, b := range fn.Blocks {
			for _, in := range b.Instrs {
				if st, ok := in.(*ssa.Store); ok {
					if c, ok := st.Val.(*ssa.Const); ok && c.IsNil() {
						if fa, ok := st.Addr.(*ssa.FieldAddr); ok {
							e.cuNils[fieldName(fa.X.Type(), fa.Field)] = true
						}
					}
				}
			}
		}
	}
	e.timerFor = map[string]int8{"ProposalTimer": 1, "PrevoteDelayTimer": 3, "PrecommitDelayTimer": 5, "CommitWaitTimer": 6}
	return e
}

func isRLCPtr(v ssa.Value) bool {
	return strings.HasPrefix(v.Type().String(), "*") && TypeName(v.Type()) == "tsi.RoundLifecycle"
}

func (e *absEngine) violate(kind string, in ssa.Instruction, st absState) {
	key := kind + "@" + e.w.InstrPos(in)
	if _, ok := e.viol[key]; !ok {
		e.viol[key] = absViolation{kind, e.w.InstrPos(in), FuncName(in.Parent()), st}
	}
}

type absEnv map[ssa.Value]int

func (v absEnv) key() string {
	var parts []string
	for k, x := range v {
		parts = append(parts, fmt.Sprintf("%s=%d", k.Name(), x))
	}
	sort.Strings(parts)
	return strings.Join(parts, ",")
}

func (v absEnv) clone() absEnv {
	n := absEnv{}
	for k, x := range v {
		n[k] = x
	}
	return n
}

type absItem struct {
	b    *ssa.BasicBlock
	i    int
	prev *ssa.BasicBlock
	st   absState
	env  absEnv
}

// relevantFns: functions that can change the tracked state or produce a tracked effect
// (directly or through callees). All others are treated as no-ops by the interpreter.
func (e *absEngine) computeRelevant() {
	e.relevant = map[*ssa.Function]bool{}
	// every function of the two packages, including helpers that rule iteration folds into their
	// caller (new single-call-site functions): the interpreter walks raw SSA and must descend into them
	var fns []*ssa.Function
	for _, f := range e.w.AllFuncs {
		if p := fnPkg(f); p != nil && (strings.HasSuffix(p.Pkg.Path(), "tmengine/internal/tmstate") || strings.HasSuffix(p.Pkg.Path(), "tmstate/internal/tsi")) {
			fns = append(fns, f)
		}
	}
	direct := func(fn *ssa.Function) bool {
		rel := false
		for _, b := range fn.Blocks {
			for _, in := range b.Instrs {
				switch x := in.(type) {
				case *ssa.Store:
					switch lastField(x.Addr) {
					case "tsi.RoundLifecycle.S", "tsi.RoundLifecycle.StepTimer", "tsi.RoundLifecycle.CancelTimer":
						rel = true
					}
				case *ssa.Send:
					if e.sendKind(x.X.Type().String()) != "" {
						rel = true
					}
				case *ssa.Select:
					for _, st := range x.States {
						if st.Send != nil && e.sendKind(st.Send.Type().String()) != "" {
							rel = true
						}
					}
					rel = rel || fn.Name() == "handleLiveEvent" || fn.Name() == "handleCatchupEvent"
				case *ssa.Call:
					cc := &x.Call
					if cc.IsInvoke() && TypeName(cc.Value.Type()) == "tmstate.RoundTimer" {
						rel = true
					}
					if !cc.IsInvoke() && cc.StaticCallee() == nil {
						if ld, ok := cc.Value.(*ssa.UnOp); ok && lastField(ld.X) == "tsi.RoundLifecycle.CancelTimer" {
							rel = true
						}
					}
					if f := cc.StaticCallee(); f != nil {
						n := FuncName(f)
						if (n == "gchan.SendC" || n == "gchan.SendCLogBlocked" || n == "gchan.ReqResp") && len(cc.Args) >= 4 && e.sendKind(cc.Args[3].Type().String()) != "" {
							rel = true
						}
					}
				}
			}
		}
		return rel
	}
	for _, fn := range fns {
		if direct(fn) {
			e.relevant[fn] = true
		}
	}
	for changed := true; changed; {
		changed = false
		for _, fn := range fns {
			if e.relevant[fn] {
				continue
			}
			for _, b := range fn.Blocks {
				for _, in := range b.Instrs {
					if c := callCommon(in); c != nil {
						if f := c.StaticCallee(); f != nil && e.relevant[f] {
							e.relevant[fn] = true
							changed = true
						}
					}
				}
			}
		}
	}
}

func (e *absEngine) sendKind(typ string) string {
	switch {
	case strings.HasSuffix(typ, "tsi.DecidePrecommitRequest"):
		return "Decide"
	case strings.HasSuffix(typ, "tsi.ChooseProposedBlockRequest"):
		return "Choose"
	case strings.HasSuffix(typ, "tsi.ConsiderProposedBlocksRequest"):
		return "Consider"
	case strings.HasSuffix(typ, "tmdriver.FinalizeBlockRequest"):
		return "Finalize"
	}
	return ""
}

func (e *absEngine) effect(typ string, fn *ssa.Function, st *absState) {
	k := e.sendKind(typ)
	if k == "" {
		return
	}
	at := "@" + stepName(st.S)
	if st.Reset {
		at += "(fresh)"
	}
	if e.events != nil {
		e.events[k+at+"/"+fn.Name()] = true
	}
	if k == "Decide" && st.Dec < 2 {
		st.Dec++
	}
	if k == "Choose" && st.Cho < 2 {
		st.Cho++
	}
}

// run interprets fn from state in.
func (e *absEngine) run(fn *ssa.Function, in absState, depth int) map[absOut]bool {
	key := FuncName(fn) + "|" + in.String()
	if e.inProg[key] || depth > 14 {
		if e.memo[key] == nil {
			e.memo[key] = map[absOut]bool{}
		}
		return e.memo[key]
	}
	if e.doneIter[key] == e.iterNo && e.iterNo > 0 {
		return e.memo[key]
	}
	e.inProg[key] = true
	defer delete(e.inProg, key)
	outs := map[absOut]bool{}
	var rlc ssa.Value
	for _, p := range fn.Params {
		if isRLCPtr(p) {
			rlc = p
		}
	}
	isRLC := func(v ssa.Value) bool {
		if rlc != nil && v == rlc {
			return true
		}
		if al, ok := v.(*ssa.Alloc); ok && TypeName(al.Type()) == "tsi.RoundLifecycle" && al.Comment != "complit" {
			return rlc == nil
		}
		return false
	}
	rlcField := func(addr ssa.Value) (string, bool) {
		fa, ok := addr.(*ssa.FieldAddr)
		if !ok || !isRLC(fa.X) {
			return "", false
		}
		return fieldName(fa.X.Type(), fa.Field), true
	}
	seen := map[string]bool{}
	work := []absItem{{fn.Blocks[0], 0, nil, in, absEnv{}}}
	for len(work) > 0 {
		it := work[len(work)-1]
		work = work[:len(work)-1]
		k := fmt.Sprintf("%d/%d/%s/%s", it.b.Index, it.i, it.st, it.env.key())
		if seen[k] {
			continue
		}
		seen[k] = true
		e.explored++
		if len(seen) > 400000 || e.explored > 30000000 {
			e.violate("state-space-exceeded", fn.Blocks[0].Instrs[0], it.st)
			break
		}
		st, env := it.st, it.env
		ended := false
		setEnv := func(v ssa.Value, x int) {
			env = env.clone()
			env[v] = x
		}
		for idx := it.i; idx < len(it.b.Instrs) && !ended; idx++ {
			ins := it.b.Instrs[idx]
			switch x := ins.(type) {
			case *ssa.Phi:
				if it.prev != nil {
					for pi, p := range it.b.Preds {
						if p == it.prev {
							if v, ok := e.val(env, x.Edges[pi]); ok {
								setEnv(x, v)
							} else if _, had := env[x]; had {
								env = env.clone()
								delete(env, x)
							}
						}
					}
				}
			case *ssa.UnOp:
				switch x.Op {
				case token.MUL:
					if f, ok := rlcField(x.X); ok {
						switch f {
						case "S":
							if st.S >= 0 {
								setEnv(x, int(st.S))
							}
						case "CancelTimer":
							if st.TC {
								setEnv(x, vNonNil)
							} else {
								setEnv(x, vNil)
							}
						case "StepTimer":
							if st.TS {
								setEnv(x, vNonNil)
							} else {
								setEnv(x, vNil)
							}
						}
					} else if _, isAl := x.X.(*ssa.Alloc); isAl {
						if rs := reachingStore(x); rs != nil {
							if v, ok := e.val(env, rs); ok {
								setEnv(x, v)
							}
						}
					}
				case token.NOT:
					if v, ok := e.val(env, x.X); ok && (v == 0 || v == 1) {
						setEnv(x, 1-v)
					}
				}
			case *ssa.BinOp:
				if x.Op == token.EQL || x.Op == token.NEQ {
					a, okA := e.val(env, x.X)
					b, okB := e.val(env, x.Y)
					if okA && okB {
						eq := a == b
						res := 0
						if eq == (x.Op == token.EQL) {
							res = 1
						}
						setEnv(x, res)
					}
				}
			case *ssa.Extract:
				if sel, ok := x.Tuple.(*ssa.Select); ok && x.Index == 0 {
					if v, ok := env[sel]; ok {
						setEnv(x, v)
					}
				}
				if c, ok := x.Tuple.(*ssa.Call); ok {
					if v, ok := env[c]; ok && v == vTimer {
						setEnv(x, vTimer)
					} else if ok && (v == 0 || v == 1) && x.Type().String() == "bool" {
						setEnv(x, v)
					}
				}
			case *ssa.Store:
				if f, ok := rlcField(x.Addr); ok {
					v, known := e.val(env, x.Val)
					switch f {
					case "S":
						if known && v >= 0 && v < 8 {
							st.S = int8(v)
						} else {
							st.S = -1
							e.violate("untracked-step-store", ins, st)
						}
					case "StepTimer":
						st.TS = !(known && v == vNil)
					case "CancelTimer":
						st.TC = !(known && v == vNil)
					}
				}
			case *ssa.Select:
				for si, sst := range x.States {
					enabled := true
					if ld, ok := sst.Chan.(*ssa.UnOp); ok && ld.Op == token.MUL {
						if f, ok := rlcField(ld.X); ok {
							if f == "StepTimer" {
								enabled = st.TS && st.Run
							} else if st.CU && e.cuNils[f] {
								enabled = false // nil channel: MarkCatchingUp cleared it
							}
						}
					}
					if !enabled {
						continue
					}
					nst := st
					if !enabledAlways(sst, rlcField) {
						nst.Run = false // the step timer fired
					}
					if sst.Send != nil {
						e.effect(sst.Send.Type().String(), fn, &nst)
					}
					ne := env.clone()
					ne[x] = si
					work = append(work, absItem{it.b, idx + 1, it.prev, nst, ne})
				}
				if !x.Blocking {
					ne := env.clone()
					ne[x] = len(x.States)
					work = append(work, absItem{it.b, idx + 1, it.prev, st, ne})
				}
				ended = true
			case *ssa.Send:
				e.effect(x.X.Type().String(), fn, &st)
			case *ssa.Call:
				cc := &x.Call
				if !cc.IsInvoke() && cc.StaticCallee() == nil {
					if ld, ok := cc.Value.(*ssa.UnOp); ok && ld.Op == token.MUL {
						if f, ok := rlcField(ld.X); ok && f == "CancelTimer" {
							if !st.TC && st.Quit {
								ended = true
								continue
							}
							if !st.TC {
								e.violate("cancel-call-on-nil-timer", ins, st)
								ended = true
								continue
							}
							st.Run = false
							continue
						}
					}
					continue
				}
				if cc.IsInvoke() {
					if TypeName(cc.Value.Type()) == "tmstate.RoundTimer" {
						if st.Run && !st.Quit {
							e.violate("timer-requested-while-previous-still-armed", ins, st)
						}
						st.Run = true
						st.Arm = e.timerFor[cc.Method.Name()]
						setEnv(x, vTimer)
					}
					continue
				}
				callee := cc.StaticCallee()
				if callee == nil {
					continue
				}
				name := FuncName(callee)
				switch name {
				case "tsi.GetStepFromVoteSummary":
					for _, sv := range e.stepRes {
						ne := env.clone()
						ne[x] = int(sv)
						work = append(work, absItem{it.b, idx + 1, it.prev, st, ne})
					}
					ended = true
					continue
				case "tsi.RoundLifecycle.MarkCatchingUp":
					st.CU = true
					continue
				case "tmstate.StateMachine.handleViewUpdate":
					if st.CU {
						// assumption A-CU (checked structurally by C12.1/assume): while the lifecycle
						// replays a committed height no view for that height and round arrives
						continue
					}
				}
				if strings.HasPrefix(name, "gchan.") {
					if len(cc.Args) >= 4 {
						e.effect(cc.Args[3].Type().String(), fn, &st)
					}
					// success, or the context was cancelled
					ne := env.clone()
					ne[x] = 1
					work = append(work, absItem{it.b, idx + 1, it.prev, st, ne})
					qst := st
					qst.Quit = true
					ne = env.clone()
					ne[x] = 0
					work = append(work, absItem{it.b, idx + 1, it.prev, qst, ne})
					ended = true
					continue
				}
				passes := false
				for _, a := range cc.Args {
					if isRLC(a) {
						passes = true
					}
				}
				if !passes || callee.Blocks == nil || !e.relevant[callee] {
					continue
				}
				if name == "tmstate.StateMachine.advanceRound" || name == "tmstate.StateMachine.advanceHeight" || name == "tmstate.StateMachine.beginCommit" {
					if e.events != nil {
						e.events["call:"+callee.Name()+"@"+stepName(st.S)] = true
					}
				}
				res := e.run(callee, st, depth+1)
				for o := range res {
					nst := o.St
					nst.Reset = st.Reset || o.St.Reset
					if name == "tsi.RoundLifecycle.Reset" {
						nst.Reset = true
						nst.CU = false
						nst.Dec = 0
						nst.Cho = 0
					}
					ne := env
					if o.Ret >= 0 {
						ne = env.clone()
						ne[x] = int(o.Ret)
					}
					work = append(work, absItem{it.b, idx + 1, it.prev, nst, ne})
				}
				ended = true
			case *ssa.If:
				v, ok := e.val(env, x.Cond)
				for si, s := range it.b.Succs {
					if ok && (v == 0 || v == 1) && ((v == 1) != (si == 0)) {
						continue
					}
					work = append(work, absItem{s, 0, it.b, st, pruneEnv(env, s)})
				}
				ended = true
			case *ssa.Jump:
				work = append(work, absItem{it.b.Succs[0], 0, it.b, st, pruneEnv(env, it.b.Succs[0])})
				ended = true
			case *ssa.Return:
				ret := int8(-1)
				if len(x.Results) >= 1 {
					if v, ok := e.val(env, x.Results[len(x.Results)-1]); ok && (v == 0 || v == 1) {
						ret = int8(v)
					}
				}
				if ret == 0 && fn.Signature.Results().Len() == 1 && fn.Signature.Results().At(0).Name() == "ok" {
					st.Quit = true
				}
				outs[absOut{st, ret}] = true
				ended = true
			case *ssa.Panic:
				ended = true
			}
		}
	}
	old := e.memo[key]
	if len(old) != len(outs) {
		e.changed = true
	} else {
		for o := range outs {
			if !old[o] {
				e.changed = true
			}
		}
	}
	e.memo[key] = outs
	e.doneIter[key] = e.iterNo
	return outs
}

// pruneEnv drops tracked values that are dead on entry to block b: values
// defined in blocks that do not dominate b cannot be used there (SSA), which
// keeps the abstract environments — and so the explored state space — small.
func pruneEnv(env absEnv, b *ssa.BasicBlock) absEnv {
	var out absEnv
	for v := range env {
		in, ok := v.(ssa.Instruction)
		if !ok {
			continue
		}
		if in.Block() != b && !in.Block().Dominates(b) {
			if out == nil {
				out = env.clone()
			}
			delete(out, v)
		}
	}
	if out == nil {
		return env
	}
	return out
}

func (e *absEngine) val(env absEnv, v ssa.Value) (int, bool) {
	switch x := v.(type) {
	case *ssa.Const:
		if x.Value == nil {
			return vNil, true
		}
		if x.Value.Kind().String() == "Bool" {
			if x.Value.String() == "true" {
				return 1, true
			}
			return 0, true
		}
		if i, ok := constInt(x); ok {
			return i, true
		}
		return 0, false
	case *ssa.Convert:
		return e.val(env, x.X)
	case *ssa.ChangeType:
		return e.val(env, x.X)
	}
	r, ok := env[v]
	return r, ok
}

// fixpoint runs an entry until the summaries stabilise.
func (e *absEngine) fixpoint(fn *ssa.Function, in absState) map[absOut]bool {
	if e.relevant == nil {
		e.computeRelevant()
	}
	var res map[absOut]bool
	for iter := 0; iter < 12; iter++ {
		e.changed = false
		e.iterNo++
		res = e.run(fn, in, 0)
		if !e.changed {
			break
		}
	}
	return res
}

// invariant I of C12.1.
func timerInvariant(s absState) (bool, string) {
	if s.Quit {
		return true, ""
	}
	if s.CU {
		if s.TS || s.TC || s.Run {
			return false, "catching up with a step timer present"
		}
		return true, ""
	}
	if s.S < 0 {
		return false, "step unknown"
	}
	if timedStep(s.S) {
		if !(s.TS && s.TC && s.Run) {
			return false, "timed step " + stepName(s.S) + " without an armed timer"
		}
		return true, ""
	}
	if s.TS || s.TC || s.Run {
		return false, "untimed step " + stepName(s.S) + " with a step timer outstanding"
	}
	return true, ""
}

// enabledAlways reports whether the select case is not the lifecycle's step timer.
func enabledAlways(sst *ssa.SelectState, rlcField func(ssa.Value) (string, bool)) bool {
	if ld, ok := sst.Chan.(*ssa.UnOp); ok && ld.Op == token.MUL {
		if f, ok := rlcField(ld.X); ok && f == "StepTimer" {
			return false
		}
	}
	return true
}
