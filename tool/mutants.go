package main

// Overlay mutation operators for the checker's self-test (see selftest.go).
// Each entry edits the real source inside one function; Find only locates the
// edit. They are the kind of change the example-based suite would not notice.

const (
	fKernel = "tm/tmengine/internal/tmmirror/internal/tmi/kernel.go"
	fKState = "tm/tmengine/internal/tmmirror/internal/tmi/kstate.go"
	fSM     = "tm/tmengine/internal/tmstate/statemachine.go"
	fTimer  = "tm/tmengine/internal/tmstate/roundtimer.go"
	fMirror = "tm/tmengine/internal/tmmirror/mirror.go"
	fVS     = "tm/tmconsensus/votesummary.go"
	fRLC    = "tm/tmengine/internal/tmstate/internal/tsi/roundlifecycle.go"
	fMapper = "tm/tmconsensus/feedbackmapper.go"
	fEngine = "tm/tmengine/engine.go"
	fSimple = "gcrypto/simplecommonmessagesignatureproof.go"
	fJSON   = "tm/tmcodec/tmjson/json.go"
	fCodec  = "tm/tmcodec/tmjson/codec.go"
	fHash   = "tm/tmconsensus/tmconsensustest/simplehashscheme.go"
	fSig    = "tm/tmconsensus/tmconsensustest/simplesignaturescheme.go"
	fAStore = "tm/tmstore/tmmemstore/actionstore.go"
	fChatty = "tm/tmgossip/chattystrategy.go"
	fMath   = "tm/tmconsensus/math.go"
	fWS     = "gdriver/gtxbuf/workingstate.go"
	fLibp2p = "tm/tmp2p/tmlibp2p/connection.go"
	fDaisy  = "tm/tmp2p/tmp2ptest/daisychainnetwork.go"
	fSMVM   = "tm/tmengine/internal/tmmirror/internal/tmi/statemachineviewmanager.go"
)

func init() {
	addMutants(
		// ---- C01
		Mutant{Prop: "C01", Name: "shift-uses-minority-threshold", File: fKernel, Func: "Kernel.checkVotingPrecommitViewShift",
			Find: `maj := tmconsensus\.ByzantineMajority\(`, Repl: `maj := tmconsensus.ByzantineMinority(`, Expect: []string{"C01.2", "C01.7"}},
		Mutant{Prop: "C01", Name: "replay-drops-majority-return", File: fKernel, Func: "Kernel.handleReplayedHeader",
			Find: `(?s)if blockPow < maj \{\s*return tmelink\.ReplayedHeaderValidationError\{.*?\n\t\t\}\n\t\}`, Repl: `_ = maj`, Expect: []string{"C01.4"}},
		Mutant{Prop: "C01", Name: "replay-drops-invalid-signature-return", File: fKernel, Func: "Kernel.handleReplayedHeader",
			Find: `if !mergeRes\.AllValidSignatures \{`, Repl: `if false && !mergeRes.AllValidSignatures {`, Expect: []string{"C01.4", "C01.5"}},

		// ---- C02
		Mutant{Prop: "C02", Name: "prevote-answer-channel-not-latched", File: fSM, Func: "StateMachine.handleLiveEvent",
			Find: `\n\t\trlc\.PrevoteHashCh = nil\n`, Repl: "\n", Expect: []string{"C02.4"}},
		Mutant{Prop: "C02", Name: "prevote-sent-although-save-failed", File: fSM, Func: "StateMachine.recordPrevote",
			Find: `(SavePrevoteAction\(ctx, m\.signer\.PubKey\(\), vt, sig\); err != nil) \{`, Repl: "$1 && len(sig) == 0 {", Expect: []string{"C02.2"}},
		Mutant{Prop: "C02", Name: "precommit-sent-before-save", File: fSM, Func: "StateMachine.recordPrecommit",
			Find: `(?s)(\tif err := m\.aStore\.SavePrecommitAction\(.*?return false\n\t\}\n)(.*?)(\trlc\.OutgoingActionsCh <- tmeil\.StateMachineRoundAction\{.*?\n\t\}\n)`, Repl: "$3$2$1", Expect: []string{"C02.2"}},

		Mutant{Prop: "C02", Name: "round-entrance-reuses-actions-channel", File: fSM, Func: "StateMachine.advance",
			Find: `re\.Actions = make\(chan tmeil\.StateMachineRoundAction, 3\)`, Repl: "re.Actions = rlc.OutgoingActionsCh\n\t\tif re.Actions == nil {\n\t\t\tre.Actions = make(chan tmeil.StateMachineRoundAction, 3)\n\t\t}", Expect: []string{"C02.9"}},

		// ---- C04 / C10
		Mutant{Prop: "C04", Name: "shift-skips-a-height", File: fKState, Func: "kState.ShiftVotingToCommitting",
			Find: `newHeight := s\.Voting\.Height \+ 1`, Repl: `newHeight := s.Voting.Height + 2`, Expect: []string{"C04.1", "C04.2"}},
		Mutant{Prop: "C04", Name: "position-saved-with-swapped-arguments", File: fKernel, Func: "Kernel.updateObservers",
			Find: `s\.Voting\.Height, s\.Voting\.Round,\n\t\ts\.Committing\.Height, s\.Committing\.Round,\n\t\); err`, Repl: "s.Committing.Height, s.Committing.Round,\n\t\ts.Voting.Height, s.Voting.Round,\n\t); err", Expect: []string{"C04.3"}},
		Mutant{Prop: "C04", Name: "mirror-store-refuses-lower-round-at-any-height", File: "tm/tmstore/tmmemstore/mirrorstore.go", Func: "MirrorStore.SetNetworkHeightRound",
			Find: `(\ts\.votingHeight = votingHeight\n)`, Repl: "\tif committingHeight >= s.committingHeight && committingRound < s.committingRound {\n\t\treturn tmstore.ErrStoreUninitialized\n\t}\n$1", Expect: []string{"C04.3"}},
		Mutant{Prop: "C10", Name: "position-persisted-before-header", File: fKernel, Func: "Kernel.checkVotingPrecommitViewShift",
			Find: `(?s)(\tif err := k\.saveCurrentCommittingHeader\(ctx, s\); err != nil \{.*?\n\t\}\n)\n(\tif err := k\.updateObservers\(ctx, s\); err != nil \{\n\t\treturn err\n\t\}\n)`, Repl: "$2\n$1", Expect: []string{"C10.1"}},
		Mutant{Prop: "C04", Name: "position-persisted-before-header", File: fKernel, Func: "Kernel.checkVotingPrecommitViewShift",
			Find: `(?s)(\tif err := k\.saveCurrentCommittingHeader\(ctx, s\); err != nil \{.*?\n\t\}\n)\n(\tif err := k\.updateObservers\(ctx, s\); err != nil \{\n\t\treturn err\n\t\}\n)`, Repl: "$2\n$1", Expect: []string{"C04.7"}},

		// ---- C05
		Mutant{Prop: "C05", Name: "prevote-handler-skips-validator-hash-check", File: fMirror, Func: "Mirror.HandlePrevoteProofs",
			Find: `if p\.PubKeyHash != string\(curPrevoteState\.ValidatorSet\.PubKeyHash\) \{`, Repl: "if p.PubKeyHash == \"\" {", Expect: []string{"C05.1"}},
		Mutant{Prop: "C05", Name: "prevote-handler-ignores-invalid-signatures", File: fMirror, Func: "Mirror.HandlePrevoteProofs",
			Find: `if !allValidSignatures \{`, Repl: "if !allValidSignatures && try > 1 {", Expect: []string{"C05.2"}},
		Mutant{Prop: "C05", Name: "prevote-proof-over-precommit-sign-bytes", File: fMirror, Func: "Mirror.makeNewPrevoteProof",
			Find: `tmconsensus\.PrevoteSignBytes\(`, Repl: "tmconsensus.PrecommitSignBytes(", Expect: []string{"C05.1", "C05.6"}},

		Mutant{Prop: "C05", Name: "future-vote-keys-chosen-by-sender", File: fMirror, Func: "Mirror.handleFuturePrecommitProofs",
			Find: `if len\(pubKeys\) == 0 \{`, Repl: "if len(pubKeys) == 0 || p.PubKeyHash != string(vlReq.VRV.ValidatorSet.PubKeyHash) {", Expect: []string{"C05.1"}},

		// ---- C06
		Mutant{Prop: "C06", Name: "precommit-total-counts-per-target", File: fVS, Func: "VoteSummary.SetPrecommitPowers",
			Find: `if !counted\.Test\(i\) \{`, Repl: "if valPow > 0 || !counted.Test(i) {", Expect: []string{"C06.1"}},
		Mutant{Prop: "C06", Name: "counted-set-forgets-earlier-targets", File: fVS, Func: "VoteSummary.SetPrevotePowers",
			Find: `(?s)(if !counted\.Test\(i\) \{\n)\t\t\t\tcounted\.Set\(i\)\n(.*?blockPow \+= valPow\n\t\t\})`, Repl: "${1}${2}\n\t\tbs.CopyFull(&counted)", Expect: []string{"C06.1"}},
		Mutant{Prop: "C06", Name: "most-voted-tie-depends-on-map-order", File: fVS, Func: "VoteSummary.SetPrevotePowers",
			Find: `if blockPow == maxPow \{\n\t\t\tmaxHash = min\(maxHash, blockHash\)\n\t\t\} else if blockPow > maxPow \{`, Repl: "if blockPow > maxPow {", Expect: []string{"C06.2"}},
		Mutant{Prop: "C06", Name: "prevote-applied-without-recomputing-summary", File: fKernel, Func: "Kernel.addPrevote",
			Find: `vrv\.VoteSummary\.SetPrevotePowers\(vrv\.ValidatorSet\.Validators, vrv\.PrevoteProofs\)\n`, Repl: "\n", Expect: []string{"C06.3"}},

		// ---- C07
		Mutant{Prop: "C07", Name: "next-height-takes-current-validator-set", File: fKernel, Func: "Kernel.checkVotingPrecommitViewShift",
			Find: `nextValSet := votedHeader\.NextValidatorSet`, Repl: `nextValSet := votedHeader.ValidatorSet`, Expect: []string{"C07.1"}},
		Mutant{Prop: "C07", Name: "proposal-filter-ignores-next-validator-set", File: fSM, Func: "StateMachine.rejectMismatchedProposedHeaders",
			Find: `\t\tif !ph\.Header\.NextValidatorSet\.Equal\(rlc\.PrevFinNextValSet\) \{\n\t\t\tcontinue\n\t\t\}\n`, Repl: "", Expect: []string{"C07.4"}},
		Mutant{Prop: "C07", Name: "finalization-rotation-reuses-finalized-set", File: fRLC, Func: "RoundLifecycle.CycleFinalization",
			Find: `rlc\.FinalizedValSet, rlc\.CurValSet, rlc\.PrevFinNextValSet, tmconsensus\.ValidatorSet\{\}`, Repl: `rlc.FinalizedValSet, rlc.CurValSet, rlc.FinalizedValSet, tmconsensus.ValidatorSet{}`, Expect: []string{"C07.3"}},

		// ---- C09
		Mutant{Prop: "C09", Name: "mapper-loses-a-returnable-result", File: fMapper, Func: "AcceptAllValidFeedbackMapper.HandleProposedHeader",
			Find: `\t\tHandleProposedHeaderMissingProposerPubKey,\n`, Repl: "", Expect: []string{"C09.1"}},
		Mutant{Prop: "C09", Name: "unbuffered-response-channel", File: fMirror, Func: "",
			Find: `Resp: make\(chan tmi\.PHCheckResponse, 1\),`, Repl: `Resp: make(chan tmi.PHCheckResponse),`, Expect: []string{"C09.7"}},
		Mutant{Prop: "C09", Name: "required-option-not-validated", File: fEngine, Func: "Engine.validateSettings",
			Find: `(?s)\tif e\.mCfg\.RoundStore == nil \{.*?\n\t\}\n`, Repl: "", Expect: []string{"C09.8"}},
		Mutant{Prop: "C09", Name: "new-panic-site-in-kernel", File: fKernel, Func: "Kernel.updateObservers",
			Find: `if k\.mc == nil \{\n\t\treturn nil`, Repl: "if k.mc == nil {\n\t\tpanic(\"no metrics collector\")", Expect: []string{"C09.3"}},

		Mutant{Prop: "C10", Name: "restart-after-finalization-keeps-stored-round", File: fSM, Func: "StateMachine.sendInitialActionSet",
			Find: `h\+\+\n\t\tr = 0\n`, Repl: "h++\n", Expect: []string{"C10.3"}},

		Mutant{Prop: "C10", Name: "replayed-header-refused-when-recorded", File: "tm/tmstore/tmmemstore/roundstore.go", Func: "RoundStore.SaveRoundReplayedHeader",
			Find: `(\ts\.replayedHeaders\[h\.Height\] = append)`, Repl: "\tfor _, rh := range s.replayedHeaders[h.Height] {\n\t\tif string(rh.Hash) == string(h.Hash) {\n\t\t\treturn tmstore.OverwriteError{Field: \"hash\"}\n\t\t}\n\t}\n$1", Expect: []string{"C10.6"}},

		// ---- C11
		Mutant{Prop: "C11", Name: "round-entrance-keeps-queued-jump-ahead", File: fSMVM, Func: "stateMachineViewManager.Reset",
			Find: `m\.jumpAhead = nil`, Repl: "if m.jumpAhead != nil && m.jumpAhead.Round < re.R {\n\t\tm.jumpAhead = nil\n\t}", Expect: []string{"C11.4"}},
		Mutant{Prop: "C11", Name: "gossip-copy-aliases-kernel-view", File: fKState, Func: "kState.MarkVotingViewUpdated",
			Find: `s\.GossipViewManager\.Voting\.VRV = s\.Voting\.Clone\(\)`, Repl: `s.GossipViewManager.Voting.VRV = s.Voting`, Expect: []string{"C11.2", "C11.3"}},
		Mutant{Prop: "C11", Name: "state-machine-output-never-marked-sent", File: fKernel, Func: "Kernel.mainLoop",
			Find: `smOut\.MarkSent\(\)`, Repl: ``, Expect: []string{"C11.4"}},
		Mutant{Prop: "C11", Name: "voting-update-keeps-version", File: fKState, Func: "kState.MarkVotingViewUpdated",
			Find: `s\.Voting\.Version\+\+\n`, Repl: "\n", Expect: []string{"C11.2"}},

		// ---- C13
		Mutant{Prop: "C13", Name: "clone-shares-signature-map", File: fSimple, Func: "SimpleCommonMessageSignatureProof.Clone",
			Find: `sigs: maps\.Clone\(p\.sigs\),`, Repl: `sigs: p.sigs,`, Expect: []string{"C13.3"}},
		Mutant{Prop: "C13", Name: "signature-recorded-before-verification", File: fSimple, Func: "SimpleCommonMessageSignatureProof.AddSignature",
			Find: `(\tif !key\.Verify\(p\.msg, sig\) \{\n\t\treturn ErrInvalidSignature\n\t\}\n)\n(\tp\.sigs\[string\(sig\)\] = key\n\tp\.bitset\.Set\(uint\(keyIdx\)\)\n)`, Repl: "$2\n$1", Expect: []string{"C13.1"}},
		Mutant{Prop: "C13", Name: "key-id-length-not-checked", File: fSimple, Func: "SimpleCommonMessageSignatureProof.MergeSparse",
			Find: `if len\(sparseSig\.KeyID\) != 2 \{`, Repl: `if len(sparseSig.KeyID) > 2 {`, Expect: []string{"C13.2"}},
		Mutant{Prop: "C13", Name: "key-id-checker-admits-one-past-the-end", File: fSimple, Func: "beUint16KeyLenIDChecker.IsValid",
			Find: `idx < c\.nKeys`, Repl: "idx <= c.nKeys", Expect: []string{"C13.2"}},
		Mutant{Prop: "C13", Name: "known-signer-accepted-without-verification", File: fSimple, Func: "SimpleCommonMessageSignatureProof.AddSignature",
			Find: `(\tif !key\.Verify\(p\.msg, sig\) \{)`, Repl: "\tif p.bitset.Test(uint(keyIdx)) {\n\t\treturn nil\n\t}\n$1", Expect: []string{"C13.1"}},
		Mutant{Prop: "C13", Name: "failed-add-keeps-all-valid-flag", File: fSimple, Func: "SimpleCommonMessageSignatureProof.MergeSparse",
			Find: `(if err := p\.AddSignature\(sparseSig\.Sig, key\); err != nil \{\n)\t\t\tres\.AllValidSignatures = false\n`, Repl: "$1", Expect: []string{"C13.4"}},

		Mutant{Prop: "C13", Name: "bls-rest-order-without-tie-break", File: "gcrypto/gblsminsig/signatureproofscheme.go", Func: "sortRestForFinalizing",
			Find: `(?s)ret := bytes\.Compare\(aa\.msg, bb\.msg\).*?return ret\n`, Repl: "_ = aa.msg\n\t\t_ = bb.msg\n\t\treturn 0\n", Expect: []string{"C13.7"}},

		// ---- C14
		Mutant{Prop: "C14", Name: "decoder-drops-data-id", File: fJSON, Func: "jsonHeader.ToHeader",
			Find: `\t\tDataID:           jh\.DataID,\n`, Repl: "", Expect: []string{"C14.1"}},
		Mutant{Prop: "C14", Name: "encoder-swaps-annotations", File: fJSON, Func: "toJSONHeader",
			Find: `UserAnnotation:   b\.Annotations\.User,`, Repl: `UserAnnotation:   b.Annotations.Driver,`, Expect: []string{"C14.1"}},
		Mutant{Prop: "C14", Name: "prevote-variant-marshalled-as-precommit", File: fCodec, Func: "MarshalCodec.MarshalConsensusMessage",
			Find: `jcm\.PrevoteProof = json\.RawMessage\(b\)`, Repl: `jcm.PrecommitProof = json.RawMessage(b)`, Expect: []string{"C14.3"}},
		Mutant{Prop: "C14", Name: "hash-field-tagged-omitempty", File: fJSON, Func: "",
			Find: "\tDataID           \\[\\]byte\n", Repl: "\tDataID           []byte `json:\",omitempty\"`\n", Expect: []string{"C14.2"}},

		Mutant{Prop: "C14", Name: "precommit-proof-encoded-without-key-hash", File: fCodec, Func: "MarshalCodec.MarshalPrecommitProof",
			Find: `PubKeyHash: \[\]byte\(p\.PubKeyHash\),`, Repl: "PubKeyHash: nil,", Expect: []string{"C14.1"}},

		Mutant{Prop: "C14", Name: "next-validators-decoded-from-current-set", File: fJSON, Func: "jsonHeader.ToHeader",
			Find: `Validators:    nextValidators,`, Repl: "Validators:    validators,", Expect: []string{"C14.1"}},

		// ---- C15
		Mutant{Prop: "C15", Name: "data-id-not-hashed", File: fHash, Func: "SimpleHashScheme.Block",
			Find: `\t\th\.DataID,\n\t\th\.PrevAppStateHash,\n`, Repl: "\t\th.PrevAppStateHash,\n\t\th.PrevAppStateHash,\n", Expect: []string{"C15.1"}},
		Mutant{Prop: "C15", Name: "commit-signatures-looked-up-by-printable-key", File: fHash, Func: "SimpleHashScheme.Block",
			Find: `h\.PrevCommitProof\.Proofs\[block\.raw\]`, Repl: `h.PrevCommitProof.Proofs[block.key]`, Expect: []string{"C15.3"}},
		Mutant{Prop: "C15", Name: "commit-blocks-hashed-in-map-order", File: fHash, Func: "SimpleHashScheme.Block",
			Find: `(?s)\tsort\.Slice\(prevCommitBlocks, func\(i, j int\) bool \{.*?\n\t\}\)\n`, Repl: "", Expect: []string{"C15.2"}},
		Mutant{Prop: "C15", Name: "nil-prevote-shares-prevote-label", File: fSig, Func: "",
			Find: "NIL PREVOTE:", Repl: "PREVOTE:", Expect: []string{"C15.5"}},

		Mutant{Prop: "C15", Name: "sort-comparator-mixes-fields", File: fHash, Func: "SimpleHashScheme.Block",
			Find: `prevCommitBlocks\[i\]\.key < prevCommitBlocks\[j\]\.key`, Repl: "prevCommitBlocks[i].raw < prevCommitBlocks[j].key", Expect: []string{"C15.2"}},

		Mutant{Prop: "C15", Name: "vote-powers-bypass-the-buffer", File: fHash, Func: "SimpleHashScheme.VotePowers",
			Find: `fmt\.Fprintf\(&buf, "%d", pow\)`, Repl: `fmt.Fprintf(hasher, "%d", pow)`, Expect: []string{"C15.4"}},

		// ---- C16
		Mutant{Prop: "C16", Name: "writer-under-read-lock", File: fAStore, Func: "ActionStore.SavePrecommitAction",
			Find: `s\.mu\.Lock\(\)\n\tdefer s\.mu\.Unlock\(\)`, Repl: "s.mu.RLock()\n\tdefer s.mu.RUnlock()", Expect: []string{"C16.1"}},
		Mutant{Prop: "C16", Name: "reader-without-lock", File: fAStore, Func: "ActionStore.LoadActions",
			Find: `\ts\.mu\.RLock\(\)\n\tdefer s\.mu\.RUnlock\(\)\n`, Repl: "", Expect: []string{"C16.1"}},
		Mutant{Prop: "C16", Name: "second-prevote-overwrites", File: fAStore, Func: "ActionStore.SavePrevoteAction",
			Find: `if ra\.PrevoteSignature != "" \{`, Repl: `if ra.PrevoteSignature != "" && ra.PrevoteTarget == vt.BlockHash {`, Expect: []string{"C16.2"}},
		Mutant{Prop: "C16", Name: "precommit-stored-under-round-zero", File: fAStore, Func: "ActionStore.SavePrecommitAction",
			Find: `hr := hr\{H: vt\.Height, R: vt\.Round\}`, Repl: `hr := hr{H: vt.Height}`, Expect: []string{"C16.2", "C16.6"}},

		// ---- C17
		Mutant{Prop: "C17", Name: "broadcast-all-skips-prevotes", File: fChatty, Func: "ChattyStrategy.broadcastAll",
			Find: `\t\ts\.broadcastPrevotes\(ctx, view\) &&\n`, Repl: "", Expect: []string{"C17.2"}},
		Mutant{Prop: "C17", Name: "diff-ignores-round-change", File: fChatty, Func: "ChattyStrategy.broadcastViewDiff",
			Find: `cur\.Height == prev\.Height && cur\.Round == prev\.Round`, Repl: `cur.Height == prev.Height`, Expect: []string{"C17.2"}},
		Mutant{Prop: "C17", Name: "previous-voting-view-not-replaced", File: fChatty, Func: "ChattyStrategy.kernel",
			Find: `\t\t\t\tprevVotingView = \*u\.Voting\n`, Repl: "", Expect: []string{"C17.4"}},

		Mutant{Prop: "C17", Name: "diff-stops-after-first-changed-part", File: fChatty, Func: "ChattyStrategy.broadcastUpdatesOnly",
			Find: `(?s)(if len\(cur\.ProposedHeaders\) != len\(prev\.ProposedHeaders\) \{\n)\t\tif !s\.broadcastProposedBlocks\(ctx, cur\) \{\n\t\t\treturn false\n\t\t\}\n`, Repl: "${1}\t\treturn s.broadcastProposedBlocks(ctx, cur)\n", Expect: []string{"C17.3"}},

		Mutant{Prop: "C17", Name: "precommit-change-test-on-vote-power", File: fChatty, Func: "ChattyStrategy.broadcastUpdatesOnly",
			Find: `if curPrecommitCount != prevPrecommitCount \{`, Repl: "if cur.VoteSummary.TotalPrecommitPower != prev.VoteSummary.TotalPrecommitPower {", Expect: []string{"C17.3"}},

		Mutant{Prop: "C17", Name: "promoted-view-diffed-against-next-round-snapshot", File: fChatty, Func: "ChattyStrategy.kernel",
			Find: `if !s\.broadcastViewDiff\(ctx, prevVotingView, \*u\.Voting\) \{`, Repl: "_ = prevVotingView\n\t\t\t\tif !s.broadcastUpdatesOnly(ctx, prevNextRoundView, *u.Voting) {", Expect: []string{"C17.2"}},

		// ---- C18
		Mutant{Prop: "C18", Name: "majority-off-by-one-for-remainder-two", File: fMath, Func: "ByzantineMajority",
			Find: `if rem < 2 \{`, Repl: `if rem < 3 {`, Expect: []string{"C18.1", "C18.4"}},
		Mutant{Prop: "C18", Name: "minority-too-low-for-remainder-one", File: fMath, Func: "ByzantineMinority",
			Find: `if rem == 0 \{`, Repl: `if rem <= 1 {`, Expect: []string{"C18.2", "C18.4"}},
		Mutant{Prop: "C18", Name: "minority-of-zero-does-not-panic", File: fMath, Func: "ByzantineMinority",
			Find: `(?s)\tif n == 0 \{\n\t\tpanic\(.*?\)\n\t\}\n`, Repl: "", Expect: []string{"C18.3"}},
		Mutant{Prop: "C18", Name: "commit-threshold-compared-with-less-or-equal", File: fKernel, Func: "Kernel.checkVotingPrecommitViewShift",
			Find: `if highestPow < maj \{`, Repl: `if highestPow <= maj {`, Expect: []string{"C18.6"}},

		// ---- C19
		Mutant{Prop: "C19", Name: "append-before-error-check", File: fWS, Func: "workingState.CheckAddTx",
			Find: `(newState, err := w\.addTx\(ctx, cur, tx\)\n)`, Repl: "$1\tw.Txs = append(w.Txs, tx)\n", Expect: []string{"C19.1"}},
		Mutant{Prop: "C19", Name: "rebase-does-not-thread-state", File: fWS, Func: "workingState.Rebase",
			Find: `w\.curState = newState\n\t\tw\.isUpdated = true`, Repl: "_ = newState\n\t\tw.isUpdated = true", Expect: []string{"C19.2"}},
		Mutant{Prop: "C19", Name: "add-always-against-base-state", File: fWS, Func: "workingState.CheckAddTx",
			Find: `cur = w\.curState`, Repl: `cur = w.BaseState`, Expect: []string{"C19.1"}},

		Mutant{Prop: "C19", Name: "readers-share-the-pending-list", File: fWS, Func: "workingState.Buffered",
			Find: `dst = append\(dst, w\.Txs\.\.\.\)\n\treturn dst`, Repl: "if len(dst) == 0 {\n\t\treturn w.Txs[:len(w.Txs):len(w.Txs)]\n\t}\n\tdst = append(dst, w.Txs...)\n\treturn dst", Expect: []string{"C19.4"}},

		// ---- C20
		Mutant{Prop: "C20", Name: "unknown-feedback-accepted", File: fLibp2p, Func: "Connection.exchangeFeedbackToLibp2p",
			Find: `(?s)(default:\n.*?)return pubsub\.ValidationIgnore`, Repl: "${1}return pubsub.ValidationAccept", Expect: []string{"C20.1"}},
		Mutant{Prop: "C20", Name: "undecodable-message-accepted", File: fLibp2p, Func: "Connection.libp2pConsensusMessageValidator",
			Find: `("err", err\)\n\t\t\t)return pubsub\.ValidationIgnore`, Repl: "${1}return pubsub.ValidationAccept", Expect: []string{"C20.2"}},
		Mutant{Prop: "C20", Name: "daisy-chain-forwards-unaccepted-prevotes", File: fDaisy, Func: "DaisyChainConnection.handleMessage",
			Find: `if h\.HandlePrevoteProofs\(ctx, \*msg\.Prevote\) != gexchange\.FeedbackAccepted \{\n\t\t\treturn\n\t\t\}`, Repl: "_ = h.HandlePrevoteProofs(ctx, *msg.Prevote)", Expect: []string{"C20.4"}},

		// ---- C08
		Mutant{Prop: "C08", Name: "precommit-update-commits-without-majority", File: fSM, Func: "StateMachine.handlePrecommitViewUpdate",
			Find: `if maxPow >= maj \{`, Repl: `if maxPow >= maj || maxPow > 0 {`, Expect: []string{"C08.3", "C08.4"}},
		Mutant{Prop: "C08", Name: "proposal-timeout-keeps-step", File: fSM, Func: "StateMachine.handleTimerElapsed",
			Find: `rlc\.S = tsi\.StepAwaitingPrevotes\n`, Repl: "\n", Expect: []string{"C08.2"}},
		Mutant{Prop: "C08", Name: "prevote-delay-timeout-steps-back", File: fSM, Func: "StateMachine.handleTimerElapsed",
			Find: `rlc\.S = tsi\.StepAwaitingPrecommits\n`, Repl: "rlc.S = tsi.StepAwaitingPrevotes\n", Expect: []string{"C08.1", "C08.2"}},
		Mutant{Prop: "C08", Name: "height-advance-without-finalization", File: fSM, Func: "StateMachine.handleTimerElapsed",
			Find: `if len\(rlc\.FinalizedValSet\.Validators\) == 0 \{`, Repl: `if false {`, Expect: []string{"C08.5"}},

		Mutant{Prop: "C08", Name: "deferred-finalize-selects-header-by-prevote-hash", File: fSM, Func: "StateMachine.handleCommitWaitViewUpdate",
			Find: `(?s)(pbIdx = slices\.IndexFunc\(vrv\.ProposedHeaders.*?)MostVotedPrecommitHash`, Repl: "${1}MostVotedPrevoteHash", Expect: []string{"C08.3"}},

		// ---- C12
		Mutant{Prop: "C12", Name: "prevote-delay-timeout-keeps-timer-fields", File: fSM, Func: "StateMachine.handleTimerElapsed",
			Find: `(rlc\.S = tsi\.StepAwaitingPrecommits\n\n\t\trlc\.CancelTimer\(\)\n)\t\trlc\.StepTimer = nil\n\t\trlc\.CancelTimer = nil\n`, Repl: "$1", Expect: []string{"C12.1", "C12.3"}},
		Mutant{Prop: "C12", Name: "commit-begins-without-cancelling-delay-timer", File: fSM, Func: "StateMachine.handlePrecommitViewUpdate",
			Find: `if rlc\.S == tsi\.StepPrecommitDelay \{\n\t\t\t\trlc\.CancelTimer\(\)`, Repl: "if rlc.S == tsi.StepPrecommitDelay {\n", Expect: []string{"C12.2"}},
		Mutant{Prop: "C12", Name: "precommit-delay-entered-without-timer", File: fSM, Func: "StateMachine.handlePrecommitViewUpdate",
			Find: `rlc\.StepTimer, rlc\.CancelTimer = m\.rt\.PrecommitDelayTimer\(ctx, rlc\.H, rlc\.R\)`, Repl: ``, Expect: []string{"C12.1"}},
		Mutant{Prop: "C12", Name: "timer-start-case-panics-without-cancel-poll", File: fTimer, Func: "StandardRoundTimer.background",
			Find: `case req := <-t\.startTimerRequests:\n(\t\t\t//)`, Repl: "case req := <-t.startTimerRequests:\n\t\t\tif req.Dur < 0 {\n\t\t\t\tpanic(errors.New(\"negative\"))\n\t\t\t}\n$1", Expect: []string{"C12.4"}},
		Mutant{Prop: "C12", Name: "fired-timer-handed-to-cancel-path", File: fTimer, Func: "StandardRoundTimer.background",
			Find: `(case <-timer\.C:\n)(\t\t\t// The timer elapsed\.)`, Repl: "${1}\t\t\tselect {\n\t\t\tcase <-cancelTimer:\n\t\t\t\tgoto RUNNING\n\t\t\tdefault:\n\t\t\t}\n$2", Expect: []string{"C12.6"}},
		Mutant{Prop: "C12", Name: "rearmed-timer-not-listened-to", File: fTimer, Func: "StandardRoundTimer.background",
			Find: `(?s)\n\tRUNNING:\n(.*?startTimer\(req\)\n\t\t\t\t)goto RUNNING`, Repl: "\n${1}continue", Expect: []string{"C12.7"}},
		Mutant{Prop: "C12", Name: "cancel-closes-elapsed-channel", File: fTimer, Func: "StandardRoundTimer.background",
			Find: `// Don't close the channel on cancel\.`, Repl: "close(timerElapsed)", Expect: []string{"C12.5"}},
		// ---- round 5 rules
		Mutant{Prop: "C18", Name: "round-advance-on-hand-derived-threshold", File: fKernel, Func: "Kernel.checkVotingPrecommitViewShift",
			Find: `if vs\.TotalPrecommitPower == vs\.AvailablePower \{`, Repl: "if vs.TotalPrecommitPower-highestPow >= vs.AvailablePower-maj {", Expect: []string{"C18.8"}},
		Mutant{Prop: "C02", Name: "startup-keeps-proposal-channel-although-view-has-our-header", File: fSM, Func: "StateMachine.initializeRLC",
			Find: `(?s)(if m\.signer\.PubKey\(\)\.Equal\(ph\.ProposerPubKey\) \{.*?)rlc\.ProposalCh = nil\n\t\t\t\tbreak`, Repl: "${1}break", Expect: []string{"C02.10"}},
		Mutant{Prop: "C12", Name: "elapsed-channel-reused-after-cancel", File: fTimer, Func: "StandardRoundTimer.background",
			Find: `\n\t\ttimerElapsed = make\(chan struct\{\}\)\n`, Repl: "\n\t\tif timerElapsed == nil {\n\t\t\ttimerElapsed = make(chan struct{})\n\t\t}\n", Expect: []string{"C12.8"}},
		Mutant{Prop: "C16", Name: "replayed-header-replaces-earlier-one", File: "tm/tmstore/tmmemstore/roundstore.go", Func: "RoundStore.SaveRoundReplayedHeader",
			Find: `s\.replayedHeaders\[h\.Height\] = append\(s\.replayedHeaders\[h\.Height\], h\)`, Repl: "s.replayedHeaders[h.Height] = []tmconsensus.Header{h}", Expect: []string{"C16.6"}},
		Mutant{Prop: "C07", Name: "engine-mirror-set-from-external-genesis", File: fEngine, Func: "New",
			Find: `e\.mCfg\.InitialValidatorSet = smCfg\.Genesis\.ValidatorSet\n`, Repl: "e.mCfg.InitialValidatorSet = smCfg.Genesis.ValidatorSet\n\tif e.mCfg.InitialValidatorSet.Validators == nil {\n\t\te.mCfg.InitialValidatorSet = e.genesis.GenesisValidatorSet\n\t}\n", Expect: []string{"C07.6"}},
		Mutant{Prop: "C10", Name: "engine-mirror-set-from-external-genesis", File: fEngine, Func: "New",
			Find: `e\.mCfg\.InitialValidatorSet = smCfg\.Genesis\.ValidatorSet\n`, Repl: "e.mCfg.InitialValidatorSet = smCfg.Genesis.ValidatorSet\n\tif e.mCfg.InitialValidatorSet.Validators == nil {\n\t\te.mCfg.InitialValidatorSet = e.genesis.GenesisValidatorSet\n\t}\n", Expect: []string{"C10.7"}},
		Mutant{Prop: "C10", Name: "commit-proof-saved-by-reference", File: fKernel, Func: "Kernel.saveCurrentCommittingHeader",
			Find: `proof := s\.Voting\.PrevCommitProof\.Clone\(\)`, Repl: "proof := s.Voting.PrevCommitProof", Expect: []string{"C10.8"}},
		Mutant{Prop: "C05", Name: "commit-proof-saved-by-reference", File: fKernel, Func: "Kernel.saveCurrentCommittingHeader",
			Find: `proof := s\.Voting\.PrevCommitProof\.Clone\(\)`, Repl: "proof := s.Voting.PrevCommitProof", Expect: []string{"C05.9"}},
		Mutant{Prop: "C09", Name: "wrong-commit-status-falls-into-view-dispatch", File: fMirror, Func: "Mirror.HandlePrevoteProofs",
			Find: `if vlResp\.Status != tmi\.ViewFound \{`, Repl: "if vlResp.Status == tmi.ViewBeforeCommitting || vlResp.Status == tmi.ViewOrphaned {", Expect: []string{"C09.11"}},
		Mutant{Prop: "C11", Name: "nil-commit-pins-a-view-never-cleared-on-entrance", File: fKState, Func: "kState.AdvanceVotingRound",
			Find: `(\n\ts\.incrementVotingRound\(\)\n)`, Repl: "\n\tif m := &s.StateMachineViewManager; m.H() == s.Voting.Height && m.R() == s.Voting.Round && m.forceSend == nil {\n\t\tfinal := s.Voting.Clone()\n\t\tm.ForceSend(&final)\n\t}\n$1", Expect: []string{"C11.7"}},
		Mutant{Prop: "C04", Name: "replay-jump-not-persisted", File: fKernel, Func: "Kernel.handleReplayedHeader",
			Find: `(?s)if err := k\.jumpVotingRound\(ctx, s, proof\.Round\); err != nil \{.*?\n\t\t\t\}\n\t\t\}\n`, Repl: "s.JumpVotingRound()\n", Expect: []string{"C04.10"}},
		Mutant{Prop: "C08", Name: "decide-precommit-on-fully-voted-split-prevotes", File: fSM, Func: "StateMachine.handlePrevoteViewUpdate",
			Find: `if maxPow >= maj \{`, Repl: "if maxPow >= maj || vs.TotalPrevotePower == vs.AvailablePower {", Expect: []string{"C08.9"}},
		Mutant{Prop: "C06", Name: "recycled-summary-keeps-most-voted-hash", File: fVS, Func: "VoteSummary.ResetForSameHeight",
			Find: `\n\tvs\.MostVotedPrecommitHash = ""\n`, Repl: "\n", Expect: []string{"C06.6"}},
		Mutant{Prop: "C13", Name: "binomial-on-machine-words", File: "gcrypto/gblsminsig/signatureproofscheme.go", Func: "binomialCoefficient",
			Find: `out\.Binomial\(int64\(n\), int64\(k\)\)`, Repl: "if n <= 67 {\n\t\tkk := min(k, n-k)\n\t\tc := uint64(1)\n\t\tfor i := 1; i <= kk; i++ {\n\t\t\tc = c * uint64(n-kk+i) / uint64(i)\n\t\t}\n\t\tout.SetUint64(c)\n\t\treturn\n\t}\n\tout.Binomial(int64(n), int64(k))", Expect: []string{"C13.8"}},
		Mutant{Prop: "C11", Name: "summary-clone-shares-power-map", File: fVS, Func: "VoteSummary.Clone",
			Find: `PrevoteBlockPower:   maps\.Clone\(vs\.PrevoteBlockPower\),`, Repl: "PrevoteBlockPower:   vs.PrevoteBlockPower,", Expect: []string{"C11.8"}},
		Mutant{Prop: "C11", Name: "view-clone-shares-proof-objects", File: "tm/tmconsensus/roundview.go", Func: "RoundView.Clone",
			Find: `prevoteClone\[k\] = v\.Clone\(\)`, Repl: "prevoteClone[k] = v", Expect: []string{"C11.8"}},
		Mutant{Prop: "C11", Name: "versioned-clone-drops-precommit-version", File: "tm/tmconsensus/roundview.go", Func: "VersionedRoundView.Clone",
			Find: `\n\t\tPrecommitVersion: v\.PrecommitVersion,\n`, Repl: "\n", Expect: []string{"C11.8"}},
	)
}
