package main

import (
	"fmt"
	"go/token"
	"regexp"
	"strings"

	"golang.org/x/tools/go/ssa"
)

func init() {
	register(&PropMeta{
		ID: "C06", Title: "Vote power accounting counts every validator exactly once",
		Explanation: "Decides the shape of the summary computation and that every threshold decision reads a freshly recomputed summary of one view: (1) in SetPrevotePowers / SetPrecommitPowers / newVoteDistribution, the per-target power is the sum of vals[i].Power over the proof's set bits with the i < len(vals) bound, and the accumulation into the TOTAL present power inside the range over targets must be gated by a first-seen test on a signer set distinct from the per-target one (or be computed from a union outside the loop) — otherwise a validator signing k targets is counted k times; (2) the most-voted target is chosen by (max power, tie -> min hash), the only order-insensitive shape, so map iteration order cannot change it; (3) in the kernel every write into a view's proof map is followed on every path by the recomputation for that kind (path-sensitive on boolean flags); in-place merges into stored proofs are followed by recomputation as well; (4) each threshold comparison reads power and available power from the same VoteSummary value and a block power indexed by the most-voted hash of the same kind; (5) available power is the plain sum over the validator set assigned to the view.",
		NotDecided:  "numeric equality of summary and recomputation for all inputs; uint64 overflow of power sums",
		Assumptions: []string{"bitset.NextSet enumerates set bits", "value shapes ignore intervening mutation"},
		Run:         runC06,
	})
}

func runC06(r *Run) {
	w := r.W
	r.Rule("C06.1", "summary shape: per-target power sums vals[i].Power over set bits with i < len(vals); the total present power counts a validator once however many targets it signed (first-seen gate or union outside the target loop)")
	r.Rule("C06.2", "order independence: most-voted target chosen by max power with ties broken towards the smaller hash")
	r.Rule("C06.4", "threshold coherence: compared power and AvailablePower come from the same VoteSummary; block power is indexed by the most-voted hash of the same vote kind")

	for _, k := range []struct{ fn, total, blocks, most string }{
		{"tmconsensus.VoteSummary.SetPrevotePowers", "TotalPrevotePower", "PrevoteBlockPower", "MostVotedPrevoteHash"},
		{"tmconsensus.VoteSummary.SetPrecommitPowers", "TotalPrecommitPower", "PrecommitBlockPower", "MostVotedPrecommitHash"},
	} {
		fn := w.Fn(k.fn)
		if fn == nil {
			r.Fail("C06.1", k.fn, "", "function not found")
			continue
		}
		a := w.AU(fn)
		// reset at entry
		var totalStores []*ssa.Store
		a.Instrs(func(in ssa.Instruction) {
			if st, ok := in.(*ssa.Store); ok && a.sh.Of(st.Addr).String() == "p0."+k.total {
				totalStores = append(totalStores, st)
			}
		})
		hasReset := false
		var acc []*ssa.Store
		for _, st := range totalStores {
			if a.sh.Of(st.Val).String() == "0" && st.Block() == fn.Blocks[0] {
				hasReset = true
			} else {
				acc = append(acc, st)
			}
		}
		r.Check(hasReset, "C06.1", k.fn+"(reset)", w.Pos(fn.Pos()), "total is reset before recomputation")
		clears := a.CallsTo("clear")
		r.Check(len(clears) >= 1 && a.sh.Of(CallArg(clears[0], 0)).String() == "p0."+k.blocks, "C06.1", k.fn+"(clear)", w.Pos(fn.Pos()), "per-target map is cleared before recomputation")
		// per-target power stored under the range key
		okBlock := false
		a.Instrs(func(in ssa.Instruction) {
			if up, ok := in.(*ssa.MapUpdate); ok && a.sh.Of(up.Map).String() == "p0."+k.blocks {
				key := a.sh.Of(up.Key).String()
				val := a.sh.Of(up.Value).String()
				if key == "rk(p2)" && strings.Contains(val, "p1[") && strings.Contains(val, "].Power") {
					okBlock = true
				}
			}
		})
		r.Check(okBlock, "C06.1", k.fn+"(per-target)", w.Pos(fn.Pos()), "per-target power is the sum of vals[i].Power stored under the target's own hash")
		// index bound i < len(vals) guards the element read
		bound, _ := a.IfEdges("($i < @len(p1))", true, nil)
		for i, st := range acc {
			con := fmt.Sprintf("%s#total+=%d", k.fn, i+1)
			r.Check(len(bound) > 0 && a.EveryPathTakes(st, bound), "C06.1", con+"(bound)", w.InstrPos(st), "validator index from the bit set is range-checked against the validator slice")
			// first-seen gate: a BitSet.Test on a set other than the one filled by SignatureBitSet, on the not-seen edge
			inTargetLoop := inMapRangeLoop(st)
			gated := false
			if inTargetLoop {
				e, _ := a.IfEdges("@bitset.BitSet.Test($seen,$i)", false, func(b Bind) bool {
					// must not be the per-target set
					perTarget := false
					a.Instrs(func(in ssa.Instruction) {
						if c, ok := in.(*ssa.Call); ok {
							if _, n := calleeName(&c.Call); n == "gcrypto.CommonMessageSignatureProof.SignatureBitSet" {
								if a.sh.Of(c.Call.Args[0]).String() == b["$seen"].String() {
									perTarget = true
								}
							}
						}
					})
					return !perTarget
				})
				gated = len(e) > 0 && a.EveryPathTakes(st, e)
				// the seen set remembers every validator counted so far: it only grows (Set of the
				// tested index on the not-seen edge, or union with the target's signer set) and is
				// never overwritten, cleared or shrunk while the targets are being summed
				if gated {
					seenShape := ""
					for _, ifi := range func() []*ssa.If { _, x := a.IfEdges("@bitset.BitSet.Test($seen,$i)", false, nil); return x }() {
						if c, ok := ifi.Cond.(*ssa.Call); ok {
							seenShape = a.sh.Of(c.Call.Args[0]).String()
						} else if u, ok := ifi.Cond.(*ssa.UnOp); ok {
							if c, ok := u.X.(*ssa.Call); ok {
								seenShape = a.sh.Of(c.Call.Args[0]).String()
							}
						}
					}
					adds, bad := 0, ""
					a.Instrs(func(in ssa.Instruction) {
						c, ok := in.(*ssa.Call)
						if !ok || c.Call.StaticCallee() == nil || len(c.Call.Args) == 0 {
							return
						}
						f := c.Call.StaticCallee()
						if f.Signature.Recv() == nil || TypeName(f.Signature.Recv().Type()) != "bitset.BitSet" {
							return
						}
						isRecv := a.sh.Of(c.Call.Args[0]).String() == seenShape
						isArg := false
						for _, arg := range c.Call.Args[1:] {
							if a.sh.Of(arg).String() == seenShape {
								isArg = true
							}
						}
						switch {
						case isRecv && (f.Name() == "Test" || f.Name() == "Count" || f.Name() == "Len" || f.Name() == "Any" || f.Name() == "None"):
						case isRecv && f.Name() == "Set":
							if a.EveryPathTakes(in, e) && inMapRangeLoop(in) {
								adds++
							} else {
								bad = f.Name() + " outside the not-yet-counted edge at " + w.InstrPos(in)
							}
						case isRecv && f.Name() == "InPlaceUnion":
							adds++
						case isRecv && bitAdders[f.Name()]:
							if inMapRangeLoop(in) {
								bad = f.Name() + " at " + w.InstrPos(in)
							}
						case isArg && (f.Name() == "CopyFull" || f.Name() == "Copy"):
							if inMapRangeLoop(in) {
								bad = "overwritten by " + f.Name() + " at " + w.InstrPos(in)
							}
						}
					})
					if adds == 0 || bad != "" {
						gated = false
					}
				}
			}
			r.Check(!inTargetLoop || gated, "C06.1", con+"(once-per-validator)", w.InstrPos(st),
				"the total present power is accumulated inside the loop over vote targets without a first-seen test: a validator that signed k targets is counted k times")
		}
		if len(acc) == 0 {
			r.Fail("C06.1", k.fn+"#total+=", w.Pos(fn.Pos()), "total power is never accumulated")
		}
		// C06.2 max/tie-min
		var mostVal *Shape
		a.Instrs(func(in ssa.Instruction) {
			if st, ok := in.(*ssa.Store); ok && a.sh.Of(st.Addr).String() == "p0."+k.most {
				mostVal = a.sh.Of(st.Val)
			}
		})
		okMost := false
		if mostVal != nil {
			s := mostVal.String()
			okMost = strings.Contains(s, "@min(") && strings.Contains(s, "rk(p2)")
		}
		eq, _ := a.IfEdges("($bp == $mp)", true, func(b Bind) bool { return strings.Contains(b["$bp"].String(), ".Power") })
		gt, _ := a.IfEdges("($mp < $bp)", true, func(b Bind) bool { return strings.Contains(b["$bp"].String(), ".Power") })
		r.Check(okMost && len(eq) > 0 && len(gt) > 0, "C06.2", k.fn, w.Pos(fn.Pos()), "most-voted hash = arg max of target power, equal powers resolved with min(hash): "+fmt.Sprint(mostVal))
	}
	// vote distribution helper
	if fn := w.Fn("tmi.newVoteDistribution"); fn != nil {
		a := w.AU(fn)
		bound, _ := a.IfEdges("($i < @len(p1))", true, nil)
		a.Instrs(func(in ssa.Instruction) {
			up, ok := in.(*ssa.MapUpdate)
			if !ok {
				return
			}
			if !strings.HasSuffix(a.sh.Of(up.Map).String(), "BlockVotePower") {
				return
			}
			r.Check(len(bound) > 0 && a.EveryPathTakes(in, bound) && a.sh.Of(up.Key).String() == "rk(p0)", "C06.1", "tmi.newVoteDistribution(per-target)", w.InstrPos(in), "per-target power keyed by the target hash with a range-checked validator index")
		})
	}
	r.Rule("C06.6", "reset completeness: the kernel recycles view objects across rounds (voting/next-round swap), so Reset / ResetForSameHeight of VoteSummary, RoundView and VersionedRoundView clear every field (per-target powers and most-voted hashes included) except the height-scoped ones the same-height variants document as kept; a stale per-target power with empty proofs is a summary that does not equal its recomputation")
	resetCompleteness(r, "C06.6")
	r.Expect("C06.1", 9, "summary computation obligations")

	recomputeAfterMutation(r, "C06.3", []string{"recompute"})
	inPlaceMergeRule(r, "C06.3")

	// ---------- C06.4 threshold coherence
	n := 0
	for _, fn := range w.ProdFuncs() {
		a := w.A(fn)
		ord := Ord{}
		a.Instrs(func(in ssa.Instruction) {
			bo, ok := in.(*ssa.BinOp)
			if !ok {
				return
			}
			switch bo.Op {
			case token.LSS, token.GEQ, token.LEQ, token.GTR:
			default:
				return
			}
			var x, t *Shape
			if s := a.sh.Of(bo.Y); s.K == "call" && strings.HasPrefix(s.S, "tmconsensus.Byzantine") {
				x, t = a.sh.Of(bo.X), s
			} else if s := a.sh.Of(bo.X); s.K == "call" && strings.HasPrefix(s.S, "tmconsensus.Byzantine") {
				x, t = a.sh.Of(bo.Y), s
			} else {
				return
			}
			// only comparisons whose power operand is a VoteSummary field
			b, ok := Match("$w.AvailablePower", t.A[0])
			if !ok {
				return
			}
			var v *Shape
			kindOK := true
			if bb, ok := Match("$v.TotalPrevotePower", x); ok {
				v = bb["$v"]
			} else if bb, ok := Match("$v.TotalPrecommitPower", x); ok {
				v = bb["$v"]
			} else if bb, ok := Match("$v.PrevoteBlockPower[$k]", x); ok {
				v = bb["$v"]
				kindOK = bb["$k"].String() == v.String()+".MostVotedPrevoteHash"
			} else if bb, ok := Match("$v.PrecommitBlockPower[$k]", x); ok {
				v = bb["$v"]
				kindOK = bb["$k"].String() == v.String()+".MostVotedPrecommitHash"
			} else {
				// any other operand that is computed from summary quantities (a sum of two totals, a
				// total plus a block power, ...) counts some validator more than once or mixes kinds
				mentions := false
				x.Walk(func(y *Shape) {
					if y.K == "fld" && (y.S == "TotalPrevotePower" || y.S == "TotalPrecommitPower" || y.S == "PrevoteBlockPower" || y.S == "PrecommitBlockPower") {
						mentions = true
					}
				})
				if mentions {
					n++
					r.Fail("C06.4", ord.Next(FuncName(fn)+"#threshold"), w.InstrPos(in), "the power compared with a threshold is computed from summary quantities ("+truncate(x.String(), 140)+") instead of being one total or one block power: a validator that cast both kinds of vote, or voted for several targets, is counted more than once")
				}
				return
			}
			n++
			con := ord.Next(FuncName(fn) + "#threshold")
			r.Check(v.String() == b["$w"].String() && kindOK, "C06.4", con, w.InstrPos(in), "power "+truncate(x.String(), 120)+" vs threshold over "+truncate(t.A[0].String(), 80))
		})
	}
	r.Expect("C06.4", 18, "threshold comparisons over vote summaries")

	availablePowerCoherence(r, "C06.5")
}

var viewProofElem = regexp.MustCompile(`^p[0-9]\.(Committing|Voting|NextRound)\.RoundView\.(Prevote|Precommit)Proofs\[`)

// inMapRangeLoop: the instruction's block lies on a cycle through a block that
// advances a map range iterator (rangeiter.loop).
func inMapRangeLoop(in ssa.Instruction) bool {
	b := in.Block()
	// blocks reachable from b
	seen := map[*ssa.BasicBlock]bool{}
	work := []*ssa.BasicBlock{b}
	for len(work) > 0 {
		x := work[len(work)-1]
		work = work[:len(work)-1]
		for _, s := range x.Succs {
			if !seen[s] {
				seen[s] = true
				work = append(work, s)
			}
		}
	}
	if !seen[b] {
		return false // not in a cycle
	}
	for x := range seen {
		if x.Comment == "rangeiter.loop" {
			// x reaches b again?
			s2 := map[*ssa.BasicBlock]bool{}
			w2 := []*ssa.BasicBlock{x}
			for len(w2) > 0 {
				y := w2[len(w2)-1]
				w2 = w2[:len(w2)-1]
				for _, s := range y.Succs {
					if !s2[s] {
						s2[s] = true
						w2 = append(w2, s)
					}
				}
			}
			if s2[b] {
				return true
			}
		}
	}
	return false
}

// inPlaceMergeRule (C06.3 / C09.10): a merge into a proof that is held by a kernel view (not a clone)
// changes kernel state on the spot; it must be followed on every path by the recomputation of the
// summary (and, for C09, it must not happen on paths that reject the input: a rejected replay that
// already mutated the live proof wedges the mirror).
func inPlaceMergeRule(r *Run, rule string) {
	w := r.W
	// in-place merges into proofs held by a kernel view
	for _, fn := range tmiFuncs(w) {
		a := w.A(fn)
		for i, m := range a.CallsTo("gcrypto.CommonMessageSignatureProof.MergeSparse", "gcrypto.CommonMessageSignatureProof.Merge", "gcrypto.CommonMessageSignatureProof.AddSignature") {
			recvShape := a.sh.Of(CallArg(m, 0))
			recv := recvShape.String()
			// receiver is (on some path) an element of a kState view's proof map itself — not a clone of
			// it, not a freshly built proof
			live := false
			alts := []*Shape{recvShape}
			if recvShape.K == "phi" {
				alts = recvShape.A
			}
			for _, alt := range alts {
				if as := alt.String(); viewProofElem.MatchString(as) && !strings.Contains(as, ".Clone(") {
					live = true
				}
			}
			if !live {
				continue
			}
			con := fmt.Sprintf("%s#inplace-merge%d", FuncName(fn), i+1)
			// paths on which the merge is known not to have added signatures need no recomputation
			var noInc []Edge
			for _, b := range a.blocks() {
				if len(b.Instrs) == 0 {
					continue
				}
				if ifi, ok := b.Instrs[len(b.Instrs)-1].(*ssa.If); ok && len(b.Succs) == 2 {
					p := NormPred(a.sh.Of(ifi.Cond))
					if p.Op == "" && strings.Contains(p.L.String(), ".IncreasedSignatures") {
						succ := 1
						if p.Neg {
							succ = 0
						}
						noInc = append(noInc, Edge{b, succ})
					}
				}
			}
			ok, wit := AllPathsAfterHitE(m, func(x ssa.Instruction) bool {
				c := callCommon(x)
				if c == nil {
					return false
				}
				_, cn := calleeName(c)
				return cn == "tmconsensus.VoteSummary.SetPrecommitPowers" || cn == "tmconsensus.VoteSummary.SetPrevotePowers"
			}, noInc)
			det := "an in-place merge into a proof held by a kernel view changes its signer set; the view's vote summary must be recomputed before the function returns (receiver " + truncate(recv, 80) + ")"
			if wit != nil {
				det += "; return at " + w.InstrPos(wit)
			}
			r.Check(ok, rule, con, w.InstrPos(m), det)
		}
	}

}
