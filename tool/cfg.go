package main

import (
	"fmt"
	"go/constant"
	"go/token"
	"go/types"
	"sort"
	"strconv"
	"strings"

	"golang.org/x/tools/go/ssa"
)

// FnA bundles per-function analysis state.
type FnA struct {
	w    *World
	fn   *ssa.Function
	sh   *Shaper
	unit *unitInfo // non-nil when private single-call-site helpers are folded in (w.AU)
}

func (w *World) A(fn *ssa.Function) *FnA { return w.AU(fn) }

type Edge struct {
	From *ssa.BasicBlock
	Succ int
}

// Instrs iterates over all instructions of the function.
func (a *FnA) Instrs(f func(ssa.Instruction)) {
	if a.unit == nil {
		for _, b := range a.fn.Blocks {
			for _, i := range b.Instrs {
				f(i)
			}
		}
		return
	}
	// folded helpers are visited where they are called (after the call instruction itself)
	byCall := map[ssa.Instruction]*frame{}
	for _, fr := range a.unit.frames {
		byCall[fr.call] = fr
	}
	var visit func(fn *ssa.Function, depth int)
	visit = func(fn *ssa.Function, depth int) {
		for _, b := range fn.Blocks {
			for _, i := range b.Instrs {
				f(i)
				if fr := byCall[i]; fr != nil && depth < 5 {
					visit(fr.fn, depth+1)
				}
			}
		}
	}
	visit(a.fn, 0)
}

func callCommon(i ssa.Instruction) *ssa.CallCommon {
	switch i := i.(type) {
	case *ssa.Call:
		return &i.Call
	case *ssa.Go:
		return &i.Call
	case *ssa.Defer:
		return &i.Call
	}
	return nil
}

// CallsTo returns the call instructions (call/go/defer) whose callee renders
// as name: "pkg.Func", "pkg.Type.Method" for static callees, or the same for
// interface methods (invoke).
func (a *FnA) CallsTo(names ...string) []ssa.Instruction {
	var out []ssa.Instruction
	a.Instrs(func(i ssa.Instruction) {
		c := callCommon(i)
		if c == nil {
			return
		}
		_, n := calleeName(c)
		for _, want := range names {
			if n == want {
				out = append(out, i)
				return
			}
		}
	})
	return out
}

// Returns lists the Return instructions.
func (a *FnA) Returns() []*ssa.Return {
	var out []*ssa.Return
	a.Instrs(func(i ssa.Instruction) {
		if r, ok := i.(*ssa.Return); ok {
			if r.Parent() != a.fn {
				return // a folded helper's return continues in the anchor
			}
			if b := r.Block(); b.Comment == "recover" && len(b.Preds) == 0 {
				return // synthetic recover block of functions with defers
			}
			out = append(out, r)
		}
	})
	return out
}

// ReturnsOf lists the returns whose idx-th result matches the pattern.
func (a *FnA) ReturnsOf(idx int, pattern string) []ssa.Instruction {
	var out []ssa.Instruction
	pat := ParsePattern(pattern)
	for _, r := range a.Returns() {
		if idx < len(r.Results) && Unify(pat, a.sh.Of(r.Results[idx]), Bind{}) {
			out = append(out, r)
		}
	}
	return out
}

// Sends lists send instructions (plain and select cases are both reported)
// whose channel shape matches pattern.
type SendSite struct {
	Instr ssa.Instruction
	Chan  ssa.Value
	Val   ssa.Value
	InSel bool
	// for select: index of the state
	SelIdx  int
	Wrapper string // non-empty when the send happens inside a gchan helper
}

func (a *FnA) Sends() []SendSite {
	var out []SendSite
	a.Instrs(func(i ssa.Instruction) {
		switch i := i.(type) {
		case *ssa.Send:
			out = append(out, SendSite{Instr: i, Chan: i.Chan, Val: i.X})
		case *ssa.Select:
			for k, st := range i.States {
				if st.Dir == types.SendOnly {
					out = append(out, SendSite{Instr: i, Chan: st.Chan, Val: st.Send, InSel: true, SelIdx: k})
				}
			}
		case *ssa.Call:
			// the repository's send wrappers: gchan.SendC / SendCLogBlocked / ReqResp(ctx, log, ch, val, ...)
			_, n := calleeName(&i.Call)
			if (n == "gchan.SendC" || n == "gchan.SendCLogBlocked" || n == "gchan.ReqResp") && len(i.Call.Args) >= 4 {
				out = append(out, SendSite{Instr: i, Chan: i.Call.Args[2], Val: i.Call.Args[3], Wrapper: n})
			}
		}
	})
	return out
}

// IfEdges: for a pattern predicate that must evaluate to `holds` on the way to
// a target, return the edges of matching If instructions on which it does.
// filter (optional) can reject matches based on the bindings.
func (a *FnA) IfEdges(pattern string, holds bool, filter func(Bind) bool) (edges []Edge, ifs []*ssa.If) {
	return a.IfEdgesB(pattern, holds, nil, filter)
}

// IfEdgesB is IfEdges with pattern variables bound in advance to given shapes.
func (a *FnA) IfEdgesB(pattern string, holds bool, pre Bind, filter func(Bind) bool) (edges []Edge, ifs []*ssa.If) {
	return a.ifEdgesPat(ParsePattern(pattern), holds, pre, filter, 0, nil)
}

// PredSpec is one alternative of a guard: a predicate pattern and the value it must have.
type PredSpec struct {
	Pat    *Shape
	Holds  bool
	Pre    Bind
	Filter func(Bind) bool
}

// IfEdgesAlt returns the edges on which at least one of the alternative predicates has its wanted
// value. Unlike the union of separate IfEdges calls, a helper's outcome establishes the guard when
// its relevant returns are covered by the alternatives jointly (e.g. `key == nil || key.Equal(k)`
// checked inside a validator helper).
func (a *FnA) IfEdgesAlt(specs ...PredSpec) []Edge {
	e, _ := a.ifEdgesAlt(specs, 0, nil)
	return e
}

func Spec(pattern string, holds bool, filter func(Bind) bool) PredSpec {
	return PredSpec{Pat: ParsePattern(pattern), Holds: holds, Filter: filter}
}

// ifEdgesPat finds the If edges on which the pattern predicate has the value
// `holds`. Besides Ifs that test the predicate directly it follows predicate
// and validator helpers of the repository (depth <= 2): for `if helper(x)` /
// `if err := helper(x); err != nil`, the outcome of the helper establishes the
// predicate when, inside the helper, every return that can produce that
// outcome lies behind an edge on which the (parameter-translated) predicate
// has the wanted value, or returns the predicate itself.
//
// conv (nil at depth 0) renders a shape of this function in the terms of the
// function the pattern was written for (parameters replaced by the arguments
// of the call chain), so patterns, bindings and filters need no translation.
func (a *FnA) ifEdgesPat(patShape *Shape, holds bool, pre Bind, filter func(Bind) bool, depth int, conv func(*Shape) *Shape) (edges []Edge, ifs []*ssa.If) {
	return a.ifEdgesAlt([]PredSpec{{patShape, holds, pre, filter}}, depth, conv)
}

func (a *FnA) ifEdgesAlt(specs []PredSpec, depth int, conv func(*Shape) *Shape) (edges []Edge, ifs []*ssa.If) {
	if conv == nil {
		conv = func(s *Shape) *Shape { return s }
	}
	for _, b := range a.blocks() {
		if len(b.Instrs) == 0 {
			continue
		}
		ifi, ok := b.Instrs[len(b.Instrs)-1].(*ssa.If)
		if !ok || len(b.Succs) != 2 || b.Succs[0] == b.Succs[1] {
			continue
		}
		cond := NormPred(conv(a.sh.Of(ifi.Cond)))
		matched := false
		for _, sp := range specs {
			bind := Bind{}
			for k, v := range sp.Pre {
				bind[k] = v
			}
			same, ok := MatchPred(NormPred(sp.Pat), cond, bind)
			if ok && (sp.Filter == nil || sp.Filter(bind)) {
				// cond TRUE  => pattern predicate is `same`
				// we want the edge where pattern predicate == holds
				succ := 1
				if same == sp.Holds {
					succ = 0
				}
				edges = append(edges, Edge{b, succ})
				ifs = append(ifs, ifi)
				matched = true
			}
		}
		if matched || depth >= 2 {
			continue
		}
		for _, succ := range a.helperOutcomeEdges(ifi, specs, depth, conv) {
			edges = append(edges, Edge{b, succ})
			ifs = append(ifs, ifi)
		}
	}
	return
}

// condCall decomposes an If condition of the forms helper(..), !helper(..),
// helper(..)#k, helper(..) == nil, helper(..)#k != nil into the call, the result
// index and the helper outcome that makes the condition true.
func condCall(v ssa.Value) (call *ssa.Call, idx int, whenTrue string) {
	neg := false
	for {
		u, ok := v.(*ssa.UnOp)
		if !ok || u.Op != token.NOT {
			break
		}
		neg = !neg
		v = u.X
	}
	kind := "bool"
	if bo, ok := v.(*ssa.BinOp); ok && (bo.Op == token.EQL || bo.Op == token.NEQ) {
		var other ssa.Value
		if k, ok := bo.Y.(*ssa.Const); ok && k.IsNil() {
			other = bo.X
		} else if k, ok := bo.X.(*ssa.Const); ok && k.IsNil() {
			other = bo.Y
		}
		if other == nil {
			return nil, 0, ""
		}
		if bo.Op == token.NEQ {
			neg = !neg
		}
		kind = "nil"
		v = other
	}
	idx = 0
	if ex, ok := v.(*ssa.Extract); ok {
		idx = ex.Index
		v = ex.Tuple
	}
	c, ok := v.(*ssa.Call)
	if !ok || c.Call.IsInvoke() || c.Call.StaticCallee() == nil {
		return nil, 0, ""
	}
	if kind == "bool" {
		if neg {
			return c, idx, "false"
		}
		return c, idx, "true"
	}
	if neg {
		return c, idx, "nonnil"
	}
	return c, idx, "nil"
}

func (a *FnA) helperOutcomeEdges(ifi *ssa.If, specs []PredSpec, depth int, conv func(*Shape) *Shape) []int {
	call, idx, whenTrue := condCall(ifi.Cond)
	if call == nil {
		return nil
	}
	callee := call.Call.StaticCallee()
	if callee.Blocks == nil || callee == a.fn || fnPkg(callee) == nil || !strings.HasPrefix(fnPkg(callee).Pkg.Path(), modPath) {
		return nil
	}
	// shapes of the helper, rendered in the caller chain's terms: its parameters are the call's arguments
	args := make([]*Shape, len(call.Call.Args))
	for i, arg := range call.Call.Args {
		args[i] = conv(a.sh.Of(arg))
	}
	var back func(s *Shape) *Shape
	back = func(s *Shape) *Shape {
		if s == nil {
			return nil
		}
		if s.K == "param" {
			for i := range args {
				if s.S == "p"+strconv.Itoa(i) {
					return args[i]
				}
			}
		}
		if len(s.A) == 0 {
			return s
		}
		n := &Shape{K: s.K, S: s.S, F: s.F}
		for _, c := range s.A {
			n.A = append(n.A, back(c))
		}
		if n.K == "fld" && len(n.A) == 1 {
			return mkFld(n.A[0], n.S)
		}
		return n
	}
	fa := a.w.A(callee)
	fEdges, _ := fa.ifEdgesAlt(specs, depth+1, back)
	// (value, error) helpers: when the caller reaches this test only with the same call's error
	// result known to be nil (`v, err := helper(); if err != nil || v { return }`), the helper's
	// returns that carry a definite error cannot be the ones observed here
	errIdx := -1
	if res := callee.Signature.Results(); res.Len() >= 2 && idx != res.Len()-1 && res.At(res.Len()-1).Type().String() == "error" {
		var nilEdges []Edge
		for _, b := range a.fn.Blocks {
			if len(b.Instrs) == 0 {
				continue
			}
			bi, ok := b.Instrs[len(b.Instrs)-1].(*ssa.If)
			if !ok {
				continue
			}
			bo, ok := bi.Cond.(*ssa.BinOp)
			if !ok || (bo.Op != token.EQL && bo.Op != token.NEQ) {
				continue
			}
			var other ssa.Value
			if k, ok := bo.Y.(*ssa.Const); ok && k.IsNil() {
				other = bo.X
			} else if k, ok := bo.X.(*ssa.Const); ok && k.IsNil() {
				other = bo.Y
			}
			if ex, ok := other.(*ssa.Extract); ok && ex.Tuple == ssa.Value(call) && ex.Index == res.Len()-1 {
				si := 0
				if bo.Op == token.NEQ {
					si = 1
				}
				nilEdges = append(nilEdges, Edge{b, si})
			}
		}
		if len(nilEdges) > 0 && a.EveryPathTakes(ifi, nilEdges) {
			errIdx = res.Len() - 1
		}
	}
	var out []int
	outcomes := []string{"true", "false"}
	if whenTrue == "nil" || whenTrue == "nonnil" {
		outcomes = []string{"nil", "nonnil"}
	}
	for _, o := range outcomes {
		n, est := 0, true
		for _, ret := range fa.Returns() {
			if idx >= len(ret.Results) {
				est = false
				break
			}
			val := ret.Results[idx]
			if errIdx >= 0 && errIdx < len(ret.Results) {
				switch ret.Results[errIdx].(type) {
				case *ssa.MakeInterface, *ssa.Call:
					continue // a definite error: not the outcome the caller is looking at
				}
			}
			may, direct := false, false
			switch o {
			case "true", "false":
				if k, ok := val.(*ssa.Const); ok && k.Value != nil {
					may = k.Value.ExactString() == o
				} else {
					may = true
					for _, sp := range specs {
						bind := Bind{}
						for k, v := range sp.Pre {
							bind[k] = v
						}
						if same, ok := MatchPred(NormPred(sp.Pat), NormPred(back(fa.sh.Of(val))), bind); ok && (sp.Filter == nil || sp.Filter(bind)) {
							// val true => P == same ; val false => P == !same
							if (o == "true" && same == sp.Holds) || (o == "false" && same != sp.Holds) {
								direct = true
							}
						}
					}
				}
			case "nil", "nonnil":
				switch x := val.(type) {
				case *ssa.Const:
					may = x.IsNil() == (o == "nil")
				case *ssa.MakeInterface, *ssa.Call, *ssa.Alloc:
					may = o == "nonnil"
				default:
					may = true
				}
			}
			if !may {
				continue
			}
			n++
			if direct {
				continue
			}
			if len(fEdges) == 0 || !fa.EveryPathTakes(ret, fEdges) {
				est = false
			}
		}
		if n > 0 && est {
			if o == whenTrue {
				out = append(out, 0)
			} else {
				out = append(out, 1)
			}
		}
	}
	return out
}

// pathFacts remembers, along one explored path, the constant a phi received
// on the edge just traversed (boolean constants and nil). It makes the CFG
// walks path-sensitive for the flag idioms the repository uses
// (`found := false ... found = true ... if !found`, `ch = nil ... if ch != nil`).
type pathFacts map[*ssa.Phi]string // "true" | "false" | "nil"

func (f pathFacts) key() string {
	var parts []string
	for p, v := range f {
		parts = append(parts, p.Name()+"="+v)
	}
	sort.Strings(parts)
	return strings.Join(parts, ",")
}

// enter computes the facts after traversing edge from -> to.
func (f pathFacts) enter(from, to *ssa.BasicBlock) pathFacts {
	nf := pathFacts{}
	for k, v := range f {
		nf[k] = v
	}
	for _, in := range to.Instrs {
		ph, ok := in.(*ssa.Phi)
		if !ok {
			break
		}
		for pi, pred := range to.Preds {
			if pred != from {
				continue
			}
			e := ph.Edges[pi]
			// strip interface/pointer conversions
			for {
				if mi, ok := e.(*ssa.MakeInterface); ok {
					e = mi.X
					continue
				}
				if ct, ok := e.(*ssa.ChangeType); ok {
					e = ct.X
					continue
				}
				break
			}
			switch x := e.(type) {
			case *ssa.Const:
				switch {
				case x.Value == nil:
					if isNilable(x.Type()) {
						nf[ph] = "nil"
					} else {
						delete(nf, ph)
					}
				case x.Value.Kind() == constant.Bool:
					nf[ph] = fmt.Sprint(constant.BoolVal(x.Value))
				default:
					delete(nf, ph)
				}
			case *ssa.Phi:
				if v, known := f[x]; known {
					nf[ph] = v
				} else if x != ph {
					delete(nf, ph)
				}
			default:
				if isNilable(ph.Type()) {
					nf[ph] = "nonnil?" // unknown, but recorded as not-known-nil
					delete(nf, ph)
				} else {
					delete(nf, ph)
				}
			}
		}
	}
	return nf
}

func isNilable(t types.Type) bool {
	switch t.Underlying().(type) {
	case *types.Pointer, *types.Chan, *types.Map, *types.Slice, *types.Interface, *types.Signature:
		return true
	}
	return false
}

// decide returns the only feasible successor index of block b under facts f, or -1.
func (f pathFacts) decide(b *ssa.BasicBlock) int {
	if len(b.Instrs) == 0 {
		return -1
	}
	ifi, ok := b.Instrs[len(b.Instrs)-1].(*ssa.If)
	if !ok {
		return -1
	}
	neg := false
	c := ifi.Cond
	for {
		if u, ok := c.(*ssa.UnOp); ok && u.Op == token.NOT {
			neg = !neg
			c = u.X
			continue
		}
		break
	}
	truth := func(v bool) int {
		if v != neg {
			return 0
		}
		return 1
	}
	switch x := c.(type) {
	case *ssa.Phi:
		switch f[x] {
		case "true":
			return truth(true)
		case "false":
			return truth(false)
		}
	case *ssa.BinOp:
		if x.Op != token.EQL && x.Op != token.NEQ {
			return -1
		}
		var ph *ssa.Phi
		var other ssa.Value
		if p, ok := x.X.(*ssa.Phi); ok {
			ph, other = p, x.Y
		} else if p, ok := x.Y.(*ssa.Phi); ok {
			ph, other = p, x.X
		}
		if ph == nil {
			return -1
		}
		if k, ok := other.(*ssa.Const); ok && k.Value == nil && f[ph] == "nil" {
			return truth(x.Op == token.EQL)
		}
	}
	return -1
}

// reach computes the blocks reachable from start without using removed edges,
// exploring paths with pathFacts (see above).
func reach(start *ssa.BasicBlock, removed map[Edge]bool) map[*ssa.BasicBlock]bool {
	type st struct {
		b *ssa.BasicBlock
		f pathFacts
	}
	seen := map[*ssa.BasicBlock]bool{start: true}
	seenSt := map[string]bool{}
	work := []st{{start, pathFacts{}}}
	for len(work) > 0 {
		cur := work[len(work)-1]
		work = work[:len(work)-1]
		k := fmt.Sprintf("%d/%s", cur.b.Index, cur.f.key())
		if seenSt[k] {
			continue
		}
		seenSt[k] = true
		if len(seenSt) > 50000 {
			// give up on path sensitivity: plain CFG reachability (over-approximation)
			plain := map[*ssa.BasicBlock]bool{start: true}
			w2 := []*ssa.BasicBlock{start}
			for len(w2) > 0 {
				b := w2[len(w2)-1]
				w2 = w2[:len(w2)-1]
				for si, s := range b.Succs {
					if removed[Edge{b, si}] || plain[s] {
						continue
					}
					plain[s] = true
					w2 = append(w2, s)
				}
			}
			return plain
		}
		only := cur.f.decide(cur.b)
		for si, s := range cur.b.Succs {
			if only >= 0 && si != only {
				continue
			}
			if removed[Edge{cur.b, si}] {
				continue
			}
			seen[s] = true
			work = append(work, st{s, cur.f.enter(cur.b, s)})
		}
	}
	return seen
}

// EveryPathTakes reports whether every path from the function entry to the
// block of target takes at least one of the given edges.
func (a *FnA) EveryPathTakes(target ssa.Instruction, edgeSets ...[]Edge) bool {
	rem := map[Edge]bool{}
	for _, es := range edgeSets {
		for _, e := range es {
			rem[e] = true
		}
	}
	if len(a.fn.Blocks) == 0 {
		return false
	}
	if tf := target.Parent(); tf != a.fn && tf != nil {
		// target inside a folded helper: guarded inside the helper, or at the helper's call site
		if r := reach(tf.Blocks[0], rem); !r[target.Block()] {
			return true
		}
		if a.unit != nil {
			if fr := a.unit.by[tf]; fr != nil {
				return a.EveryPathTakes(fr.call, edgeSets...)
			}
		}
		return false
	}
	r := reach(a.fn.Blocks[0], rem)
	return !r[target.Block()]
}

// EveryPathFromTakes is EveryPathTakes with an explicit region entry block.
func (a *FnA) EveryPathFromTakes(entry *ssa.BasicBlock, target ssa.Instruction, edgeSets ...[]Edge) bool {
	rem := map[Edge]bool{}
	for _, es := range edgeSets {
		for _, e := range es {
			rem[e] = true
		}
	}
	r := reach(entry, rem)
	return !r[target.Block()]
}

func instrIndex(i ssa.Instruction) int {
	for k, x := range i.Block().Instrs {
		if x == i {
			return k
		}
	}
	return -1
}

// Dominates reports whether instruction x is executed before y on every path
// reaching y.
func Dominates(x, y ssa.Instruction) bool {
	if x.Parent() != y.Parent() {
		// y inside a folded helper called from x's function (possibly through further helpers)
		if ly := liftTo(y, x.Parent()); ly != nil {
			return x == ly || Dominates(x, ly)
		}
		// x inside a folded helper entered before y: x must be passed on every way out of the helper
		if curWorld != nil {
			if fr := curWorld.inlineSites()[x.Parent()]; fr != nil {
				for _, b := range x.Parent().Blocks {
					if ret, ok := b.Instrs[len(b.Instrs)-1].(*ssa.Return); ok && !Dominates(x, ret) {
						return false
					}
				}
				return ssa.Instruction(fr.call) != y && Dominates(fr.call, y)
			}
		}
		return false
	}
	if x.Block() == y.Block() {
		return instrIndex(x) < instrIndex(y)
	}
	return x.Block().Dominates(y.Block())
}

// ReachesAfter reports whether y can execute after x (y reachable from the
// point just after x).
func ReachesAfter(x, y ssa.Instruction) bool {
	if x.Block() == y.Block() && instrIndex(x) < instrIndex(y) {
		return true
	}
	seen := map[*ssa.BasicBlock]bool{}
	var work []*ssa.BasicBlock
	for _, s := range x.Block().Succs {
		if !seen[s] {
			seen[s] = true
			work = append(work, s)
		}
	}
	for len(work) > 0 {
		b := work[len(work)-1]
		work = work[:len(work)-1]
		if b == y.Block() {
			return true
		}
		for _, s := range b.Succs {
			if !seen[s] {
				seen[s] = true
				work = append(work, s)
			}
		}
	}
	return false
}

// AllPathsAfterHit: starting just after `from`, every path to a normal exit
// (Return) executes an instruction satisfying hit. Paths ending in panic are
// exempt. The walk is path-sensitive for boolean flags: the constant a
// boolean phi receives along the traversed edge is remembered and decides
// later branches on that phi (the `done := false; ...; done = true; ...; if done`
// idiom), so infeasible flag combinations are not explored.
func AllPathsAfterHit(from ssa.Instruction, hit func(ssa.Instruction) bool) (ok bool, witness ssa.Instruction) {
	return AllPathsAfterHitE(from, hit, nil)
}

// AllPathsAfterHitE additionally abandons (as satisfied) paths that take one of okEdges.
func AllPathsAfterHitE(from ssa.Instruction, hit func(ssa.Instruction) bool, okEdges []Edge) (ok bool, witness ssa.Instruction) {
	okE := map[Edge]bool{}
	for _, e := range okEdges {
		okE[e] = true
	}
	type flags map[*ssa.Phi]bool
	key := func(b *ssa.BasicBlock, i int, f flags) string {
		var parts []string
		for p, v := range f {
			parts = append(parts, fmt.Sprintf("%s=%v", p.Name(), v))
		}
		sort.Strings(parts)
		return fmt.Sprintf("%d/%d/%s", b.Index, i, strings.Join(parts, ","))
	}
	type pos struct {
		b *ssa.BasicBlock
		i int
		f flags
	}
	seen := map[string]bool{}
	work := []pos{{from.Block(), instrIndex(from) + 1, flags{}}}
	for len(work) > 0 {
		p := work[len(work)-1]
		work = work[:len(work)-1]
		k := key(p.b, p.i, p.f)
		if seen[k] {
			continue
		}
		seen[k] = true
		if len(seen) > 20000 {
			return false, from // give up conservatively
		}
		done := false
		for k := p.i; k < len(p.b.Instrs); k++ {
			in := p.b.Instrs[k]
			if hit(in) {
				done = true
				break
			}
			if r, isRet := in.(*ssa.Return); isRet {
				return false, r
			}
		}
		if done {
			continue
		}
		// branch decision by known flags
		only := -1
		if len(p.b.Instrs) > 0 {
			if ifi, isIf := p.b.Instrs[len(p.b.Instrs)-1].(*ssa.If); isIf {
				neg := false
				c := ifi.Cond
				for {
					if u, ok := c.(*ssa.UnOp); ok && u.Op == token.NOT {
						neg = !neg
						c = u.X
						continue
					}
					break
				}
				if phi, ok := c.(*ssa.Phi); ok {
					if v, known := p.f[phi]; known {
						if v != neg {
							only = 0
						} else {
							only = 1
						}
					}
				}
			}
		}
		for si, s := range p.b.Succs {
			if only >= 0 && si != only {
				continue
			}
			if okE[Edge{p.b, si}] {
				continue
			}
			// update flags for phis of s along edge p.b -> s
			nf := flags{}
			for ph, v := range p.f {
				nf[ph] = v
			}
			for _, in := range s.Instrs {
				ph, isPhi := in.(*ssa.Phi)
				if !isPhi {
					break
				}
				for pi, pred := range s.Preds {
					if pred != p.b {
						continue
					}
					e := ph.Edges[pi]
					if cst, ok := e.(*ssa.Const); ok && cst.Value != nil && cst.Value.Kind() == constant.Bool {
						nf[ph] = constant.BoolVal(cst.Value)
					} else if ep, ok := e.(*ssa.Phi); ok {
						if v, known := p.f[ep]; known {
							nf[ph] = v
						} else if ep != ph {
							delete(nf, ph)
						}
					} else {
						delete(nf, ph)
					}
				}
			}
			work = append(work, pos{s, 0, nf})
		}
	}
	return true, nil
}

// ---------- address paths / writers ----------

// PathStep is one step of an address path from the root object.
type PathStep struct {
	Type  string // struct type name the field belongs to
	Field string
}

// AddrPath decomposes an address value into its root and field path
// (index steps are recorded with Field "[]").
func AddrPath(v ssa.Value) (root ssa.Value, path []PathStep) {
	for {
		switch x := v.(type) {
		case *ssa.FieldAddr:
			path = append([]PathStep{{TypeName(x.X.Type()), fieldName(x.X.Type(), x.Field)}}, path...)
			v = x.X
			continue
		case *ssa.IndexAddr:
			path = append([]PathStep{{"", "[]"}}, path...)
			v = x.X
			continue
		case *ssa.Parameter:
			// a pointer handed to a folded helper: the path continues at the call's argument
			if curWorld != nil {
				if fr := curWorld.inlineSites()[x.Parent()]; fr != nil {
					if i := paramIndex(x.Parent(), x); i >= 0 && i < len(fr.call.Call.Args) {
						v = fr.call.Call.Args[i]
						continue
					}
				}
			}
		}
		return v, path
	}
}

// deepInstrs visits the instructions of fn and of the helpers folded into it.
func (w *World) deepInstrs(fn *ssa.Function, f func(ssa.Instruction)) { w.A(fn).Instrs(f) }

// FieldWrite describes a store through a field of a struct type.
type FieldWrite struct {
	Fn     *ssa.Function
	Instr  ssa.Instruction
	Path   []PathStep
	Val    ssa.Value // nil for delegated writes (address passed to a call)
	Kind   string    // "store", "addr-arg" (address handed to a callee), "mapupdate"
	Callee string
}

// FieldWrites finds every store in the given functions whose address path
// contains the step (typ, field), and every call that receives an address
// whose path contains it.
func (w *World) FieldWrites(fns []*ssa.Function, typ, field string) []FieldWrite {
	var out []FieldWrite
	has := func(path []PathStep) bool {
		for _, s := range path {
			if s.Type == typ && s.Field == field {
				return true
			}
		}
		return false
	}
	for _, fn := range fns {
		if w.Folded(fn) {
			continue // visited through its caller
		}
		fn := fn
		w.deepInstrs(fn, func(in ssa.Instruction) {
			{
				switch in := in.(type) {
				case *ssa.Store:
					_, p := AddrPath(in.Addr)
					if has(p) {
						out = append(out, FieldWrite{Fn: fn, Instr: in, Path: p, Val: in.Val, Kind: "store"})
					}
				case *ssa.MapUpdate:
					// m[k] = v where m is loaded from a field path
					if ld, ok := in.Map.(*ssa.UnOp); ok && ld.Op == token.MUL {
						_, p := AddrPath(ld.X)
						if has(p) {
							out = append(out, FieldWrite{Fn: fn, Instr: in, Path: p, Val: in.Value, Kind: "mapupdate"})
						}
					}
				default:
					c := callCommon(in)
					if c == nil {
						return
					}
					if callee := c.StaticCallee(); callee != nil && w.Folded(callee) {
						return // the helper's own stores are visited, with the path continued at this call
					}
					args := c.Args
					if c.IsInvoke() {
						args = append([]ssa.Value{c.Value}, args...)
					}
					for _, arg := range args {
						if _, isPtr := arg.Type().Underlying().(*types.Pointer); !isPtr {
							continue
						}
						_, p := AddrPath(arg)
						if len(p) > 0 && has(p) {
							_, n := calleeName(c)
							out = append(out, FieldWrite{Fn: fn, Instr: in, Path: p, Kind: "addr-arg", Callee: n})
						}
					}
				}
			}
		})
	}
	return out
}

func pathString(p []PathStep) string {
	var s []string
	for _, x := range p {
		s = append(s, x.Field)
	}
	return strings.Join(s, ".")
}

// ---------- enum flow ----------

// ConstSet is a set of rendered constants plus a flag for non-constant flows.
type ConstSet struct {
	Vals    map[string]bool
	Unknown []string // descriptions of non-constant sources
}

func (c *ConstSet) add(s string) {
	if c.Vals == nil {
		c.Vals = map[string]bool{}
	}
	c.Vals[s] = true
}

func (c *ConstSet) Sorted() []string {
	var out []string
	for k := range c.Vals {
		out = append(out, k)
	}
	sort.Strings(out)
	return out
}

// ResultConsts computes the constants that may be returned as result idx of fn,
// following phis, local variables and results of statically resolved module callees.
func (w *World) ResultConsts(fn *ssa.Function, idx int) *ConstSet {
	cs := &ConstSet{}
	seenFn := map[string]bool{}
	var visitFn func(fn *ssa.Function, idx int)
	var visitFnC func(fn *ssa.Function, idx, cj int, cval bool)
	var visitVal func(sh *Shaper, v ssa.Value, seen map[ssa.Value]bool)
	// the Return being evaluated (for tuple correlation: `if res, ok := helper(); !ok { return res }`)
	var curRet ssa.Instruction
	visitVal = func(sh *Shaper, v ssa.Value, seen map[ssa.Value]bool) {
		if seen[v] {
			return
		}
		seen[v] = true
		switch x := v.(type) {
		case *ssa.Const:
			cs.add(sh.constShape(x).String())
		case *ssa.Phi:
			for _, e := range x.Edges {
				visitVal(sh, e, seen)
			}
		case *ssa.Convert:
			visitVal(sh, x.X, seen)
		case *ssa.ChangeType:
			visitVal(sh, x.X, seen)
		case *ssa.MakeInterface:
			visitVal(sh, x.X, seen)
		case *ssa.UnOp:
			if x.Op == token.MUL {
				if a, ok := x.X.(*ssa.Alloc); ok {
					ai := sh.allocInfo(a)
					if !ai.escapes && len(ai.fields) == 0 {
						if len(ai.whole) == 0 {
							cs.add("zero")
						}
						if refs := a.Referrers(); refs != nil {
							for _, ref := range *refs {
								if st, ok := ref.(*ssa.Store); ok && st.Addr == ssa.Value(a) {
									saved := curRet
									curRet = st // the assignment is the point whose reachability matters
									visitVal(sh, st.Val, seen)
									curRet = saved
								}
							}
						}
						return
					}
				}
			}
			cs.Unknown = append(cs.Unknown, sh.Of(v).String())
		case *ssa.Call:
			if f := x.Call.StaticCallee(); f != nil && f.Blocks != nil && strings.HasPrefix(pkgPathOf(f), modPath) {
				visitFn(f, 0)
				return
			}
			cs.Unknown = append(cs.Unknown, sh.Of(v).String())
		case *ssa.Extract:
			if c, ok := x.Tuple.(*ssa.Call); ok {
				if f := c.Call.StaticCallee(); f != nil && f.Blocks != nil && strings.HasPrefix(pkgPathOf(f), modPath) {
					// a sibling boolean result of the same call that decides whether this return is
					// reached restricts which of the helper's returns can supply the value
					if curRet != nil && curRet.Parent() == x.Parent() && c.Referrers() != nil {
						a := w.A(x.Parent())
						for _, ref := range *c.Referrers() {
							ej, ok := ref.(*ssa.Extract)
							if !ok || ej.Index == x.Index || ej.Type().String() != "bool" {
								continue
							}
							for _, b := range x.Parent().Blocks {
								ifi, ok := b.Instrs[len(b.Instrs)-1].(*ssa.If)
								if !ok {
									continue
								}
								cond, neg := ifi.Cond, false
								for {
									u, ok := cond.(*ssa.UnOp)
									if !ok || u.Op != token.NOT {
										break
									}
									neg = !neg
									cond = u.X
								}
								if cond != ssa.Value(ej) {
									continue
								}
								for succ := 0; succ < 2; succ++ {
									if a.EveryPathTakes(curRet, []Edge{{b, succ}}) {
										val := (succ == 0) != neg
										visitFnC(f, x.Index, ej.Index, val)
										return
									}
								}
							}
						}
					}
					visitFn(f, x.Index)
					return
				}
			}
			cs.Unknown = append(cs.Unknown, sh.Of(v).String())
		default:
			cs.Unknown = append(cs.Unknown, sh.Of(v).String())
		}
	}
	visitFn = func(fn *ssa.Function, idx int) { visitFnC(fn, idx, -1, false) }
	visitFnC = func(fn *ssa.Function, idx, cj int, cval bool) {
		key := fmt.Sprintf("%s#%d/%d=%v", FuncName(fn), idx, cj, cval)
		if seenFn[key] {
			return
		}
		seenFn[key] = true
		sh := w.Shaper(fn)
		for _, b := range fn.Blocks {
			for _, in := range b.Instrs {
				if r, ok := in.(*ssa.Return); ok && idx < len(r.Results) {
					if cj >= 0 && cj < len(r.Results) {
						if k, ok := r.Results[cj].(*ssa.Const); ok && k.Value != nil && (k.Value.ExactString() == "true") != cval {
							continue // this return yields the other value of the correlated result
						}
					}
					saved := curRet
					curRet = r
					visitVal(sh, r.Results[idx], map[ssa.Value]bool{})
					curRet = saved
				}
			}
		}
	}
	visitFn(fn, idx)
	return cs
}

func pkgPathOf(fn *ssa.Function) string {
	if p := fnPkg(fn); p != nil {
		return p.Pkg.Path()
	}
	return ""
}

// SwitchInfo describes the comparison chain on a subject value in a function.
type SwitchInfo struct {
	Handled       map[string]bool // constants compared with ==
	DefaultPanics bool            // the all-comparisons-failed path reaches a panic without returning
	PanicPos      token.Pos
	NCompares     int
}

// SwitchOn analyses the chain of `subject == const` comparisons in fn for the
// subject matching the given pattern.
func (a *FnA) SwitchOn(subject string) *SwitchInfo {
	si := &SwitchInfo{Handled: map[string]bool{}}
	pat := ParsePattern(subject)
	trueEdges := map[Edge]bool{}
	var cmpBlocks []*ssa.BasicBlock
	for _, b := range a.fn.Blocks {
		if len(b.Instrs) == 0 {
			continue
		}
		ifi, ok := b.Instrs[len(b.Instrs)-1].(*ssa.If)
		if !ok {
			continue
		}
		bo, ok := ifi.Cond.(*ssa.BinOp)
		if !ok || (bo.Op != token.EQL && bo.Op != token.NEQ) {
			continue
		}
		var cst *ssa.Const
		var other ssa.Value
		if c, ok := bo.Y.(*ssa.Const); ok {
			cst, other = c, bo.X
		} else if c, ok := bo.X.(*ssa.Const); ok {
			cst, other = c, bo.Y
		} else {
			continue
		}
		if !Unify(pat, a.sh.Of(other), Bind{}) {
			continue
		}
		si.Handled[a.sh.constShape(cst).String()] = true
		si.NCompares++
		succ := 0
		if bo.Op == token.NEQ {
			succ = 1
		}
		trueEdges[Edge{b, succ}] = true
		cmpBlocks = append(cmpBlocks, b)
	}
	if len(cmpBlocks) == 0 {
		return si
	}
	// default path: from the first compare block (the one dominating the others), never taking an "equal" edge
	first := cmpBlocks[0]
	for _, b := range cmpBlocks {
		if b.Dominates(first) {
			first = b
		}
	}
	r := reach(first, trueEdges)
	for b := range r {
		if len(b.Instrs) == 0 {
			continue
		}
		if p, ok := b.Instrs[len(b.Instrs)-1].(*ssa.Panic); ok {
			// the panic must be specific to the default: not reachable through an "equal" edge alone
			// (a panic shared by a handled case would make that case panic too, which is reported elsewhere)
			onlyDefault := true
			for e := range trueEdges {
				rr := reach(e.From.Succs[e.Succ], nil)
				if rr[b] {
					onlyDefault = false
				}
			}
			if onlyDefault && dominatedByAny(b, cmpBlocks) {
				si.DefaultPanics = true
				si.PanicPos = p.Pos()
			}
		}
	}
	return si
}

func dominatedByAny(b *ssa.BasicBlock, ds []*ssa.BasicBlock) bool {
	for _, d := range ds {
		if d.Dominates(b) {
			return true
		}
	}
	return false
}

// CasePanics lists handled constants whose case body unconditionally panics
// (used to exclude "handled by panicking" from the handled set).
func (a *FnA) CasePanics(subject string) map[string]bool {
	out := map[string]bool{}
	pat := ParsePattern(subject)
	for _, b := range a.fn.Blocks {
		if len(b.Instrs) == 0 {
			continue
		}
		ifi, ok := b.Instrs[len(b.Instrs)-1].(*ssa.If)
		if !ok {
			continue
		}
		bo, ok := ifi.Cond.(*ssa.BinOp)
		if !ok || bo.Op != token.EQL {
			continue
		}
		c, ok := bo.Y.(*ssa.Const)
		if !ok || !Unify(pat, a.sh.Of(bo.X), Bind{}) {
			continue
		}
		t := b.Succs[0]
		// follow straight-line successors
		for len(t.Succs) == 1 && len(t.Preds) == 1 {
			t = t.Succs[0]
		}
		if len(t.Instrs) > 0 {
			if _, ok := t.Instrs[len(t.Instrs)-1].(*ssa.Panic); ok && len(t.Preds) == 1 {
				out[a.sh.constShape(c).String()] = true
			}
		}
	}
	return out
}

// ---------- callers ----------

// CallersOf finds all call sites (in the given functions) of the named callee
// (static or interface method).
type CallSite struct {
	Fn    *ssa.Function
	Instr ssa.Instruction
}

func (w *World) CallersOf(fns []*ssa.Function, names ...string) []CallSite {
	var out []CallSite
	for _, fn := range fns {
		if w.Folded(fn) {
			continue // visited through its caller
		}
		fn := fn
		w.deepInstrs(fn, func(in ssa.Instruction) {
			c := callCommon(in)
			if c == nil {
				// method values / function references count as potential callers too
				return
			}
			_, n := calleeName(c)
			for _, want := range names {
				if n == want {
					out = append(out, CallSite{fn, in})
				}
			}
		})
	}
	return out
}

// FuncRefs finds non-call references to a function (method values, closures
// bound to it) so who-may-call rules cannot be bypassed through a func value.
func (w *World) FuncRefs(fns []*ssa.Function, name string) []CallSite {
	var out []CallSite
	for _, fn := range fns {
		if w.Folded(fn) {
			continue
		}
		for _, b := range w.A(fn).blocks() {
			for _, in := range b.Instrs {
				for _, op := range in.Operands(nil) {
					if *op == nil {
						continue
					}
					if f, ok := (*op).(*ssa.Function); ok {
						n := FuncName(f)
						if f.Synthetic != "" && strings.Contains(f.Synthetic, "bound method") || strings.Contains(f.Synthetic, "thunk") {
							// name like (T).M$bound
							n = strings.TrimSuffix(strings.TrimSuffix(n, "$bound"), "$thunk")
						}
						if n == name {
							if c := callCommon(in); c != nil && c.Value == *op {
								continue
							}
							out = append(out, CallSite{fn, in})
						}
					}
				}
			}
		}
	}
	return out
}

func uniqueFns(cs []CallSite) []string {
	m := map[string]bool{}
	for _, c := range cs {
		m[FuncName(c.Fn)] = true
	}
	var out []string
	for k := range m {
		out = append(out, k)
	}
	sort.Strings(out)
	return out
}

// CalleeArg returns the i-th argument (receiver is index 0 for methods and
// invokes) of a call instruction.
func CallArg(in ssa.Instruction, i int) ssa.Value {
	c := callCommon(in)
	if c == nil {
		return nil
	}
	args := c.Args
	if c.IsInvoke() {
		args = append([]ssa.Value{c.Value}, args...)
	}
	if i < len(args) {
		return args[i]
	}
	return nil
}

// CaseInfo is the outcome of one case of a mapping switch.
type CaseInfo struct {
	Returns map[string]bool // rendered result shapes returned from the case body
	Panics  bool
	Pos     token.Pos
}

// SwitchCases analyses a switch whose case bodies all leave the function:
// for every `subject == K` comparison, the results returned (index resultIdx)
// from the blocks reachable from its "equal" edge; the default entry (key
// "default") is what is reachable when every comparison fails.
func (a *FnA) SwitchCases(subject string, resultIdx int) map[string]*CaseInfo {
	out := map[string]*CaseInfo{}
	pat := ParsePattern(subject)
	trueEdges := map[Edge]bool{}
	type cmp struct {
		b    *ssa.BasicBlock
		succ int
		k    string
	}
	var cmps []cmp
	for _, b := range a.fn.Blocks {
		if len(b.Instrs) == 0 {
			continue
		}
		ifi, ok := b.Instrs[len(b.Instrs)-1].(*ssa.If)
		if !ok {
			continue
		}
		bo, ok := ifi.Cond.(*ssa.BinOp)
		if !ok || (bo.Op != token.EQL && bo.Op != token.NEQ) {
			continue
		}
		var cst *ssa.Const
		var other ssa.Value
		if c, ok := bo.Y.(*ssa.Const); ok {
			cst, other = c, bo.X
		} else if c, ok := bo.X.(*ssa.Const); ok {
			cst, other = c, bo.Y
		} else {
			continue
		}
		if !Unify(pat, a.sh.Of(other), Bind{}) {
			continue
		}
		succ := 0
		if bo.Op == token.NEQ {
			succ = 1
		}
		trueEdges[Edge{b, succ}] = true
		cmps = append(cmps, cmp{b, succ, a.sh.constShape(cst).String()})
	}
	collect := func(blocks map[*ssa.BasicBlock]bool) *CaseInfo {
		ci := &CaseInfo{Returns: map[string]bool{}}
		for b := range blocks {
			for _, in := range b.Instrs {
				switch in := in.(type) {
				case *ssa.Return:
					if resultIdx < len(in.Results) {
						ci.Returns[a.sh.Of(in.Results[resultIdx]).String()] = true
					}
				case *ssa.Panic:
					ci.Panics = true
					ci.Pos = in.Pos()
				}
			}
		}
		return ci
	}
	if len(cmps) == 0 {
		return out
	}
	for _, c := range cmps {
		ci := collect(reach(c.b.Succs[c.succ], nil))
		if old, ok := out[c.k]; ok {
			for k := range ci.Returns {
				old.Returns[k] = true
			}
			old.Panics = old.Panics || ci.Panics
		} else {
			out[c.k] = ci
		}
	}
	first := cmps[0].b
	for _, c := range cmps {
		if c.b.Dominates(first) {
			first = c.b
		}
	}
	// default: never take an equal edge; exclude the compare blocks themselves
	r := reach(first, trueEdges)
	out["default"] = collect(r)
	return out
}

func setKeys(m map[string]bool) []string {
	var out []string
	for k := range m {
		out = append(out, k)
	}
	sort.Strings(out)
	return out
}

// Ord hands out per-prefix ordinals for obligation keys (call-site ordinal
// within a function, never a line number).
type Ord map[string]int

func (o Ord) Next(prefix string) string {
	o[prefix]++
	return prefix + strconv.Itoa(o[prefix])
}

// G is one required guard: on every path to the target the predicate Pattern
// evaluates to Holds. Alt lists alternative (pattern, holds) pairs that are
// equally acceptable on a path (bypass conditions).
type G struct {
	Name    string
	Pattern string
	Holds   bool
	Alt     []G
	Filter  func(Bind) bool
}

// RequireGuards checks each guard for the target and records one obligation per guard.
func (r *Run) RequireGuards(a *FnA, rule, con string, target ssa.Instruction, guards ...G) bool {
	all := true
	for _, g := range guards {
		e, _ := a.IfEdges(g.Pattern, g.Holds, g.Filter)
		n := len(e)
		specs := []PredSpec{Spec(g.Pattern, g.Holds, g.Filter)}
		for _, alt := range g.Alt {
			specs = append(specs, Spec(alt.Pattern, alt.Holds, alt.Filter))
		}
		altEdges := a.IfEdgesAlt(specs...)
		if n == 0 && len(g.Alt) > 0 {
			// the guard may exist only in one of its alternative forms
			n = len(altEdges)
		}
		ok := n > 0 && a.EveryPathTakes(target, altEdges)
		want := g.Pattern
		if !g.Holds {
			want = "not " + want
		}
		detail := fmt.Sprintf("%s: every path to the target must establish %s", g.Name, want)
		if n == 0 {
			detail += " — no such test exists in " + FuncName(a.fn)
		} else if !ok {
			detail += " — the target is reachable without passing it"
		}
		if !r.Check(ok, rule, con+"("+g.Name+")", r.W.InstrPos(target), detail) {
			all = false
		}
	}
	return all
}

// structFields lists the field names of a named struct type.
func structFields(n *types.Named) []string {
	st, ok := n.Underlying().(*types.Struct)
	if !ok {
		return nil
	}
	var out []string
	for i := 0; i < st.NumFields(); i++ {
		out = append(out, st.Field(i).Name())
	}
	return out
}

// fieldReads counts the instructions that read field `field` of struct type typ.
func fieldReads(w *World, fns []*ssa.Function, typ, field string) int {
	n := 0
	for _, fn := range fns {
		if w.Folded(fn) {
			continue
		}
		for _, b := range w.A(fn).blocks() {
			for _, in := range b.Instrs {
				switch x := in.(type) {
				case *ssa.Field:
					if TypeName(x.X.Type()) == typ && fieldName(x.X.Type(), x.Field) == field {
						n++
					}
				case *ssa.FieldAddr:
					if TypeName(x.X.Type()) != typ || fieldName(x.X.Type(), x.Field) != field || x.Referrers() == nil {
						continue
					}
					for _, ref := range *x.Referrers() {
						if st, ok := ref.(*ssa.Store); ok && st.Addr == x {
							continue
						}
						if _, ok := ref.(*ssa.DebugRef); ok {
							continue
						}
						n++
					}
				}
			}
		}
	}
	return n
}

// lastField names the struct field an address designates ("pkg.Type.field"),
// or "" when the address is not a field address.
func lastField(addr ssa.Value) string {
	if fa, ok := addr.(*ssa.FieldAddr); ok {
		return TypeName(fa.X.Type()) + "." + fieldName(fa.X.Type(), fa.Field)
	}
	return ""
}
