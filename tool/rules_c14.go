package main

import (
	"fmt"
	"go/ast"
	"reflect"
	"regexp"
	"sort"
	"strings"

	"golang.org/x/tools/go/ssa"
)

func init() {
	register(&PropMeta{
		ID: "C14", Title: "Wire codec round-trips every message and never panics on bytes",
		Explanation: "Value equality of round trips quantifies over runtime values and is not decided. Decided are the structural conditions it rests on in the shipped JSON codec: (1) field relation — for each message type the relation {(domain field, wire field)} read by the encoder (toJSON* / Marshal*) is the converse of the relation written by the decoder (To* / Unmarshal*), and every consensus-relevant field of the domain type is covered on both sides (derived fields such as ValidatorSet.PubKeys are listed with their source); (2) no wire field that carries a []byte / slice whose nil-vs-empty distinction is consensus relevant (hashes, annotations, signatures are hashed or signed differently when nil) is tagged omitempty; only the variant selector of the consensus message may be; (3) the variant written by MarshalConsensusMessage for each message kind is the variant tested and decoded by UnmarshalConsensusMessage; (4) totality — fixed-width reads of the encoded bytes are length-checked (Registry.Unmarshal, key constructors) and the decode-error edge of the libp2p validator ignores the message.",
		NotDecided:  "value equality of round trips (encoding/json behaviour, nil/empty preservation inside nested library types), panics inside third-party decoders",
		Assumptions: []string{"encoding/json encodes exported struct fields under their names unless tagged"},
		Run:         runC14,
	})
}

var paramPath = regexp.MustCompile(`\bp[0-9]+(\.[A-Za-z_][A-Za-z0-9_]*)*`)

// flowPaths extracts parameter-rooted field paths mentioned by a value
// (through shapes), including the elements of locally built slices and maps.
func flowPaths(a *FnA, v ssa.Value, depth int) map[string]bool {
	out := map[string]bool{}
	if v == nil || depth > 4 {
		return out
	}
	s := a.sh.Of(v).String()
	s = strings.ReplaceAll(s, "rv(", "(")
	s = strings.ReplaceAll(s, "rk(", "(")
	for _, m := range paramPath.FindAllString(s, -1) {
		out[m] = true
	}
	// elements of local containers
	var containers []ssa.Value
	var collect func(x ssa.Value, d int)
	collect = func(x ssa.Value, d int) {
		if d > 3 || x == nil {
			return
		}
		switch y := x.(type) {
		case *ssa.MakeSlice, *ssa.MakeMap:
			containers = append(containers, y)
		case *ssa.Slice:
			collect(y.X, d+1)
		case *ssa.Phi:
			for _, e := range y.Edges {
				collect(e, d+1)
			}
		case *ssa.Call:
			if b, ok := y.Call.Value.(*ssa.Builtin); ok && b.Name() == "append" {
				for _, arg := range y.Call.Args {
					collect(arg, d+1)
					for p := range flowPaths(a, arg, depth+1) {
						out[p] = true
					}
				}
			}
		case *ssa.UnOp:
			if al, ok := y.X.(*ssa.Alloc); ok {
				ai := a.sh.allocInfo(al)
				for _, wv := range ai.whole {
					collect(wv, d+1)
				}
			}
		}
	}
	collect(v, 0)
	for _, c := range containers {
		refs := c.Referrers()
		if refs == nil {
			continue
		}
		for _, ref := range *refs {
			switch x := ref.(type) {
			case *ssa.MapUpdate:
				if x.Map == c {
					for p := range flowPaths(a, x.Key, depth+1) {
						out[p] = true
					}
					for p := range flowPaths(a, x.Value, depth+1) {
						out[p] = true
					}
				}
			case *ssa.IndexAddr:
				if x.Referrers() != nil {
					for _, r2 := range *x.Referrers() {
						if st, ok := r2.(*ssa.Store); ok && st.Addr == x {
							for p := range flowPaths(a, st.Val, depth+1) {
								out[p] = true
							}
						}
					}
				}
			}
		}
	}
	return out
}

// builtFields: for a function that builds and returns (result idx) a struct,
// the relation destination-field-path -> source parameter paths.
func builtFields(a *FnA, resultIdx int) map[string]map[string]bool {
	roots := map[ssa.Value]bool{}
	for _, ret := range a.Returns() {
		if resultIdx >= len(ret.Results) {
			continue
		}
		structRoots(a, ret.Results[resultIdx], 0, roots)
	}
	return builtFieldsOf(a, roots)
}

// structRoots finds the local struct cells a struct value is loaded from.
func structRoots(a *FnA, v ssa.Value, d int, roots map[ssa.Value]bool) {
	if d > 4 || v == nil {
		return
	}
	switch x := v.(type) {
	case *ssa.MakeInterface:
		structRoots(a, x.X, d+1, roots)
	case *ssa.UnOp:
		if al, ok := x.X.(*ssa.Alloc); ok {
			roots[al] = true
			ai := a.sh.allocInfo(al)
			for _, wv := range ai.whole {
				structRoots(a, wv, d+1, roots)
			}
		}
	case *ssa.Phi:
		for _, e := range x.Edges {
			structRoots(a, e, d+1, roots)
		}
	}
}

// relOfValue: the field relation (field -> parameter paths of a's function) of a
// struct value: a locally built struct, or the result of a converter function of
// the repository, whose own relation is composed with the call's arguments.
func relOfValue(w *World, a *FnA, v ssa.Value, depth int) map[string]map[string]bool {
	switch x := v.(type) {
	case *ssa.MakeInterface:
		return relOfValue(w, a, x.X, depth)
	case *ssa.Call:
		callee := x.Call.StaticCallee()
		if callee == nil || callee.Blocks == nil || depth > 2 || !w.IsProd(callee) {
			return nil
		}
		ca := w.A(callee)
		crel := builtFields(ca, 0)
		out := map[string]map[string]bool{}
		for dst, srcs := range crel {
			out[dst] = map[string]bool{}
			for sp := range srcs {
				head, rest, _ := strings.Cut(sp, ".")
				var idx int
				if _, err := fmt.Sscanf(head, "p%d", &idx); err != nil || idx >= len(x.Call.Args) {
					continue
				}
				for q := range flowPaths(a, x.Call.Args[idx], 0) {
					if rest != "" {
						q += "." + rest
					}
					out[dst][q] = true
				}
			}
		}
		return out
	}
	roots := map[ssa.Value]bool{}
	structRoots(a, v, 0, roots)
	if len(roots) == 0 {
		return nil
	}
	return builtFieldsOf(a, roots)
}

func builtFieldsOf(a *FnA, roots map[ssa.Value]bool) map[string]map[string]bool {
	rel := map[string]map[string]bool{}
	add := func(dst string, v ssa.Value) {
		if rel[dst] == nil {
			rel[dst] = map[string]bool{}
		}
		for p := range flowPaths(a, v, 0) {
			rel[dst][p] = true
		}
	}
	// prefix of every struct local that ends up (as a whole) inside the result
	prefix := map[ssa.Value]string{}
	for root := range roots {
		prefix[root] = ""
	}
	loadedFrom := func(v ssa.Value) *ssa.Alloc {
		if ld, ok := v.(*ssa.UnOp); ok {
			if al, ok := ld.X.(*ssa.Alloc); ok {
				return al
			}
		}
		return nil
	}
	for changed := true; changed; {
		changed = false
		a.Instrs(func(in ssa.Instruction) {
			st, ok := in.(*ssa.Store)
			if !ok {
				return
			}
			src := loadedFrom(st.Val)
			if src == nil {
				return
			}
			root, path := AddrPath(st.Addr)
			pre, known := prefix[root]
			if !known || len(path) == 0 {
				return
			}
			p := pathString(path)
			if pre != "" {
				p = pre + "." + p
			}
			if old, ok := prefix[src]; !ok || old != p {
				if !ok {
					prefix[src] = p
					changed = true
				}
			}
		})
	}
	a.Instrs(func(in ssa.Instruction) {
		st, ok := in.(*ssa.Store)
		if !ok {
			return
		}
		root, path := AddrPath(st.Addr)
		pre, known := prefix[root]
		if !known || len(path) == 0 {
			return
		}
		if src := loadedFrom(st.Val); src != nil {
			if _, nested := prefix[src]; nested {
				return // its fields are recorded individually
			}
		}
		p := pathString(path)
		if pre != "" {
			p = pre + "." + p
		}
		add(p, st.Val)
	})
	// element writes into a container that is a field of the result: m.F[k] = v
	a.Instrs(func(in ssa.Instruction) {
		up, ok := in.(*ssa.MapUpdate)
		if !ok {
			return
		}
		ld, ok := up.Map.(*ssa.UnOp)
		if !ok {
			return
		}
		root, path := AddrPath(ld.X)
		pre, known := prefix[root]
		if !known || len(path) == 0 {
			return
		}
		p := pathString(path)
		if pre != "" {
			p = pre + "." + p
		}
		add(p, up.Key)
		add(p, up.Value)
	})
	return rel
}

type convPair struct {
	enc, dec string // function names
	encRes   int
	decRes   int
	typ      string   // domain type
	fields   []string // consensus-relevant domain fields that must be covered (dotted)
	derived  map[string]string
}

func runC14(r *Run) {
	w := r.W
	r.Rule("C14.1", "FREL: encoder and decoder field relations are converse, and every consensus-relevant field of the domain type is read by the encoder and written by the decoder")
	r.Rule("C14.2", "no wire field whose nil/empty distinction matters (byte slices of hashes, annotations, signatures, keys) is tagged omitempty; integers are never omitted")
	r.Rule("C14.3", "variant preservation: the consensus-message variant filled for each kind when marshalling is the one tested and decoded when unmarshalling, through the matching Unmarshal method")
	r.Rule("C14.4", "totality: fixed-width reads of encoded bytes are length-checked; the p2p validator ignores undecodable messages")

	pairs := []convPair{
		{enc: "tmjson.toJSONHeader", dec: "tmjson.jsonHeader.ToHeader", typ: "tmconsensus.Header",
			fields: []string{"Hash", "PrevBlockHash", "Height", "PrevCommitProof", "ValidatorSet.Validators", "ValidatorSet.PubKeyHash", "ValidatorSet.VotePowerHash",
				"NextValidatorSet.Validators", "NextValidatorSet.PubKeyHash", "NextValidatorSet.VotePowerHash", "DataID", "PrevAppStateHash", "Annotations.User", "Annotations.Driver"},
			derived: map[string]string{"ValidatorSet.PubKeys": "rebuilt from ValidatorSet.Validators", "NextValidatorSet.PubKeys": "rebuilt from NextValidatorSet.Validators"}},
		{enc: "tmjson.toJSONProposedHeader", dec: "tmjson.jsonProposedHeader.ToProposedHeader", typ: "tmconsensus.ProposedHeader",
			fields: []string{"Header", "Round", "ProposerPubKey", "Signature", "Annotations.User", "Annotations.Driver"}},
		{enc: "tmjson.toJSONCommittedHeader", dec: "tmjson.jsonCommittedHeader.ToCommittedHeader", typ: "tmconsensus.CommittedHeader", fields: []string{"Header", "Proof"}},
		{enc: "tmjson.toJSONCommitProof", dec: "tmjson.jsonCommitProof.ToCommitProof", typ: "tmconsensus.CommitProof", fields: []string{"Round", "PubKeyHash", "Proofs"}},
		{enc: "tmjson.toJSONValidator", dec: "tmjson.jsonValidator.ToValidator", typ: "tmconsensus.Validator", fields: []string{"PubKey", "Power"}},
	}
	for _, pr := range pairs {
		ef, df := w.Fn(pr.enc), w.Fn(pr.dec)
		if ef == nil || df == nil {
			r.Fail("C14.1", pr.typ, "", "converter pair not found: "+pr.enc+" / "+pr.dec)
			continue
		}
		ea, da := w.AU(ef), w.A(df)
		erel := builtFields(ea, 0) // wire field -> domain paths (p0.X)
		drel := builtFields(da, 0) // domain field -> wire paths (p0.g)
		// coverage
		for _, f := range pr.fields {
			readBy := ""
			for g, srcs := range erel {
				for s := range srcs {
					if s == "p0."+f || strings.HasPrefix(s, "p0."+f+".") {
						readBy = g
					}
				}
			}
			r.Check(readBy != "", "C14.1", pr.typ+"."+f+"(encoded)", w.Pos(ef.Pos()), "domain field must flow into some wire field; flows into: "+readBy)
			wsrc := drel[f]
			r.Check(len(wsrc) > 0, "C14.1", pr.typ+"."+f+"(decoded)", w.Pos(df.Pos()), "domain field must be rebuilt from the wire struct; sources: "+strings.Join(setKeys(wsrc), ","))
			// converse: the wire field the encoder used for f is among the decoder's sources for f
			if readBy != "" && len(wsrc) > 0 {
				ok := false
				for s := range wsrc {
					if s == "p0."+readBy || strings.HasPrefix(s, "p0."+readBy+".") || strings.HasPrefix("p0."+readBy, s+".") {
						ok = true
					}
				}
				r.Check(ok, "C14.1", pr.typ+"."+f+"(converse)", w.Pos(df.Pos()), fmt.Sprintf("encoder writes it to wire field %s; decoder rebuilds it from %v", readBy, setKeys(wsrc)))
				// and from nothing else: no other wire field may flow into this domain field
				var foreign []string
				for s := range wsrc {
					if !strings.HasPrefix(s, "p0.") {
						continue // the registry / other parameters
					}
					if s == "p0."+readBy || strings.HasPrefix(s, "p0."+readBy+".") || strings.HasPrefix("p0."+readBy, s+".") {
						continue
					}
					foreign = append(foreign, s)
				}
				sort.Strings(foreign)
				r.Check(len(foreign) == 0, "C14.1", pr.typ+"."+f+"(only-own-wire-field)", w.Pos(df.Pos()), fmt.Sprintf("decoded from wire field %s only; other wire fields flowing into it: %v", readBy, foreign))
			}
		}
		// no wire field is filled from two different domain fields of different meaning (cross-wiring)
		seenSrc := map[string]string{}
		var gs []string
		for g := range erel {
			gs = append(gs, g)
		}
		sort.Strings(gs)
		for _, g := range gs {
			for s := range erel[g] {
				if strings.Count(s, ".") == 0 {
					continue
				}
				if old, ok := seenSrc[s]; ok && old != g && !strings.HasPrefix(g, old) && !strings.HasPrefix(old, g) {
					r.Fail("C14.1", pr.typ+"(cross-wired:"+s+")", w.Pos(ef.Pos()), "domain field "+s+" is written to two wire fields: "+old+" and "+g)
				}
				seenSrc[s] = g
			}
		}
	}
	// sparse proofs are converted inline in the codec methods
	for _, k := range []string{"Prevote", "Precommit"} {
		mf, uf := w.Fn("tmjson.MarshalCodec.Marshal"+k+"Proof"), w.Fn("tmjson.MarshalCodec.Unmarshal"+k+"Proof")
		if mf == nil || uf == nil {
			r.Fail("C14.1", k+"SparseProof", "", "codec methods not found")
			continue
		}
		ma, ua := w.AU(mf), w.A(uf)
		// encoder: the field relation of the value passed to json.Marshal (built inline or by a helper)
		var erel map[string]map[string]bool
		for _, c := range ma.CallsTo("json.Marshal") {
			erel = relOfValue(w, ma, CallArg(c, 0), 0)
		}
		okE := erel["Height"]["p1.Height"] && erel["Round"]["p1.Round"] && erel["PubKeyHash"]["p1.PubKeyHash"] && erel["Proofs"]["p1.Proofs"]
		// entries appended from a range over the proof map, each block hash with its own signatures
		entries := false
		for _, fa := range append([]*FnA{ma}, calleeAnalyses(w, mf, 2)...) {
			fa.Instrs(func(in ssa.Instruction) {
				if c, ok := in.(*ssa.Call); ok {
					if b, ok := c.Call.Value.(*ssa.Builtin); ok && b.Name() == "append" && len(c.Call.Args) == 2 {
						for _, el := range sliceElemShapes(fa.sh.Of(c.Call.Args[1])) {
							if _, ok := Match("lit:tmjson.jsonProofEntry{BlockHash:rk($m),Signatures:rv($m)}", el); ok {
								entries = true
							}
						}
					}
				}
			})
		}
		var erelS []string
		for f, srcs := range erel {
			erelS = append(erelS, f+"<-"+strings.Join(setKeys(srcs), "|"))
		}
		sort.Strings(erelS)
		r.Check(okE && entries, "C14.1", "tmconsensus."+k+"SparseProof(encoded)", w.Pos(mf.Pos()), "height, round, pub key hash and every (block hash, signatures) entry are written: "+strings.Join(erelS, " "))
		// decoder (inline or through helpers of the package)
		okD, okEnt := false, false
		for _, fa := range append([]*FnA{ua}, calleeAnalyses(w, uf, 2)...) {
			fa.Instrs(func(in ssa.Instruction) {
				var vals []ssa.Value
				switch x := in.(type) {
				case *ssa.Store:
					vals = append(vals, x.Val)
				case *ssa.Return:
					vals = append(vals, x.Results...)
				case *ssa.MapUpdate:
					key, val := fa.sh.Of(x.Key).String(), fa.sh.Of(x.Value).String()
					if strings.HasSuffix(key, ".BlockHash") && strings.HasSuffix(val, ".Signatures") && strings.TrimSuffix(key, ".BlockHash") == strings.TrimSuffix(val, ".Signatures") {
						okEnt = true
					}
				}
				for _, v := range vals {
					if _, ok := Match("lit:tmconsensus."+k+"SparseProof{Height:$j.Height,Round:$j.Round,PubKeyHash:$j.PubKeyHash,$...}", fa.sh.Of(v)); ok {
						okD = true
					}
				}
			})
		}
		r.Check(okD && okEnt, "C14.1", "tmconsensus."+k+"SparseProof(decoded)", w.Pos(uf.Pos()), "decoder rebuilds height, round, pub key hash and files each entry's signatures under that entry's own block hash")
	}
	r.Rule("C14.5", "the encoder's output is the caller's: no Marshal* result shares the backing array of a pooled or reused bytes.Buffer (a later encode would overwrite an earlier result before it is decoded)")
	bufferAliasing(r, "C14.5", "tm/tmcodec/tmjson", "gcrypto")
	r.Expect("C14.1", 60, "field relation obligations")

	// ---------- C14.2 struct tags
	n2 := 0
	for _, p := range w.Pkgs {
		if !strings.HasSuffix(p.PkgPath, "tmcodec/tmjson") {
			continue
		}
		for _, f := range p.Syntax {
			ast.Inspect(f, func(nd ast.Node) bool {
				ts, ok := nd.(*ast.TypeSpec)
				if !ok {
					return true
				}
				st, ok := ts.Type.(*ast.StructType)
				if !ok {
					return true
				}
				var visit func(prefix string, st *ast.StructType)
				visit = func(prefix string, st *ast.StructType) {
					for _, fld := range st.Fields.List {
						if inner, ok := fld.Type.(*ast.StructType); ok {
							for _, nm := range fld.Names {
								visit(prefix+nm.Name+".", inner)
							}
							continue
						}
						tag := ""
						if fld.Tag != nil {
							tag = reflect.StructTag(strings.Trim(fld.Tag.Value, "`")).Get("json")
						}
						for _, nm := range fld.Names {
							n2++
							con := ts.Name.Name + "." + prefix + nm.Name
							omit := strings.Contains(tag, "omitempty") || strings.Contains(tag, "omitzero") || tag == "-"
							renamedTo := ""
							if parts := strings.Split(tag, ","); len(parts) > 0 {
								renamedTo = parts[0]
							}
							allowed := ts.Name.Name == "jsonConsensusMessage" // variant selector: exactly one of three is set
							r.Check(!omit || allowed, "C14.2", con, w.Pos(fld.Pos()),
								"wire field tagged `"+tag+"`: omitting an empty-but-non-nil value turns it into nil on decode, and hashes / sign bytes distinguish nil from empty annotations")
							_ = renamedTo
						}
					}
				}
				visit("", st)
				return true
			})
		}
	}
	if n2 < 20 {
		r.Fail("C14.2", "instances", "", fmt.Sprintf("only %d wire struct fields found", n2))
	}

	// ---------- C14.3 variants
	mf, uf := w.Fn("tmjson.MarshalCodec.MarshalConsensusMessage"), w.Fn("tmjson.MarshalCodec.UnmarshalConsensusMessage")
	if mf == nil || uf == nil {
		r.Fail("C14.3", "consensus-message", "", "codec methods not found")
	} else {
		ma, ua := w.AU(mf), w.A(uf)
		for _, v := range []struct{ field, marshal, unmarshal string }{
			{"ProposedHeader", "tmjson.MarshalCodec.MarshalProposedHeader", "tmjson.MarshalCodec.UnmarshalProposedHeader"},
			{"PrevoteProof", "tmjson.MarshalCodec.MarshalPrevoteProof", "tmjson.MarshalCodec.UnmarshalPrevoteProof"},
			{"PrecommitProof", "tmjson.MarshalCodec.MarshalPrecommitProof", "tmjson.MarshalCodec.UnmarshalPrecommitProof"},
		} {
			// marshal: store to jcm.<field> of the result of Marshal<field>(*m.<field>) under m.<field> != nil
			okM := false
			ma.Instrs(func(in ssa.Instruction) {
				st, ok := in.(*ssa.Store)
				if !ok || lastField(st.Addr) != "tmjson.jsonConsensusMessage."+v.field {
					return
				}
				val := ma.sh.Of(st.Val).String()
				if strings.HasPrefix(val, "@"+v.marshal+"(p0,p1."+v.field+")#0") || strings.HasPrefix(val, "@"+v.marshal+"(p0,*p1."+v.field+")#0") {
					e, _ := ma.IfEdges("(p1."+v.field+" == nil)", false, nil)
					if len(e) > 0 && ma.EveryPathTakes(in, e) {
						okM = true
					}
				}
			})
			r.Check(okM, "C14.3", "marshal("+v.field+")", w.Pos(mf.Pos()), "the "+v.field+" variant is encoded with "+v.marshal+" into its own wire field")
			// unmarshal: store to p2.<field> of a value decoded by Unmarshal<field>(jcm.<field>) under jcm.<field> != nil
			okU := false
			for _, c := range ua.CallsTo(v.unmarshal) {
				src := ua.sh.Of(CallArg(c, 1)).String()
				if !strings.HasSuffix(src, "."+v.field) {
					continue
				}
				e, _ := ua.IfEdgesB("($f == nil)", false, Bind{"$f": ua.sh.Of(CallArg(c, 1))}, nil)
				if len(e) == 0 || !ua.EveryPathTakes(c, e) {
					continue
				}
				// the decoded value is assigned to the same-named field of the result
				ua.Instrs(func(in ssa.Instruction) {
					if st, ok := in.(*ssa.Store); ok && lastField(st.Addr) == "tmcodec.ConsensusMessage."+v.field && ReachesAfter(c, in) {
						okU = true
					}
				})
			}
			r.Check(okU, "C14.3", "unmarshal("+v.field+")", w.Pos(uf.Pos()), "the "+v.field+" wire field is decoded with "+v.unmarshal+" into the "+v.field+" variant")
		}
	}
	r.Expect("C14.3", 6, "variant obligations")

	// ---------- C14.4 totality
	boundedReads(r, "C14.4", append(w.FuncsInPkg("gordian/gcrypto"), append(w.FuncsInPkg("tmcodec/tmjson"), w.FuncsInPkg("gcrypto/gblsminsig")...)...))
	// decode failure is ignored by the libp2p validator
	for _, fn := range w.FuncsInPkg("tm/tmp2p/tmlibp2p") {
		a := w.A(fn)
		calls := a.CallsTo("tmcodec.MarshalCodec.UnmarshalConsensusMessage")
		for i, c := range calls {
			e, _ := a.IfEdgesB("($c == nil)", false, Bind{"$c": a.sh.Of(c.(ssa.Value))}, nil)
			ok := false
			for _, ed := range e {
				blk := ed.From.Succs[ed.Succ]
				rr := reach(blk, nil)
				all := true
				any := false
				for b := range rr {
					for _, in := range b.Instrs {
						if ret, isRet := in.(*ssa.Return); isRet {
							any = true
							if a.sh.Of(ret.Results[0]).String() != "%pubsub.ValidationIgnore" {
								all = false
							}
						}
					}
				}
				ok = any && all
			}
			r.Check(ok, "C14.4", fmt.Sprintf("%s#decode-error%d", FuncName(fn), i+1), w.InstrPos(c), "an undecodable message is ignored (never accepted or relayed)")
		}
	}
	r.Expect("C14.4", 5, "totality obligations")
}

// calleeAnalyses: analyses of the repository functions statically called from fn, transitively up to depth.
func calleeAnalyses(w *World, fn *ssa.Function, depth int) []*FnA {
	seen := map[*ssa.Function]bool{fn: true}
	var out []*FnA
	var walk func(f *ssa.Function, d int)
	walk = func(f *ssa.Function, d int) {
		if d == 0 {
			return
		}
		for _, b := range f.Blocks {
			for _, in := range b.Instrs {
				c := callCommon(in)
				if c == nil {
					continue
				}
				callee := c.StaticCallee()
				if callee == nil || callee.Blocks == nil || seen[callee] || !w.IsProd(callee) {
					continue
				}
				seen[callee] = true
				out = append(out, w.A(callee))
				walk(callee, d-1)
			}
		}
	}
	walk(fn, depth)
	return out
}

// sliceElemShapes: the element shapes of an appended slice argument (a varargs list or a single element).
func sliceElemShapes(s *Shape) []*Shape {
	if s == nil {
		return nil
	}
	if s.K == "list" || s.K == "phi" {
		var out []*Shape
		for _, a := range s.A {
			out = append(out, sliceElemShapes(a)...)
		}
		return out
	}
	return []*Shape{s}
}
