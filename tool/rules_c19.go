package main

import (
	"fmt"
	"go/types"
	"regexp"
	"strings"

	"golang.org/x/tools/go/ssa"
)

func init() {
	register(&PropMeta{
		ID: "C19", Title: "The transaction buffer's pending list always applies cleanly in order",
		Explanation: "The semantics of the user-supplied apply and delete functions are not decided. Decided is the structure that makes the invariant hold for any such functions: (1) apply-before-append — the append to the pending list is on the nil-error edge of addTx(ctx, cur, tx) for that very tx, cur being the working state selected by isUpdated (current if updated, else base); (2) state threading — the state returned by addTx is stored to curState before the append / before the next call; Rebase first installs the new base as BaseState and curState, removes the applied transactions through the deleter, then re-applies every remaining transaction exactly once, in slice order, threading curState, without mutating the slice while iterating it (the loop is a range over the list and no store to the list occurs inside it), collects the invalidated ones and removes exactly those through the deleter afterwards, returning them; (3) the four fields are written only by CheckAddTx and Rebase; (4) the working state is a local of the kernel goroutine whose address goes only to synchronous handler calls, requests arrive on unbuffered channels and responses leave on capacity-1 channels.",
		NotDecided:  "semantics of the user-supplied addTx / txDeleter functions; behaviour on a non-invalid error from addTx during Rebase (the list is left as is and the error returned)",
		Assumptions: []string{"go/ssa's range-over-slice lowering (rangeindex blocks) evaluates the slice once and visits indices 0..len-1 in order"},
		Run:         runC19,
	})
}

func runC19(r *Run) {
	w := r.W
	r.Rule("C19.1", "GRD: append to Txs only on the nil-error edge of addTx(ctx, cur, tx) for the same tx; cur is curState if isUpdated else BaseState")
	r.Rule("C19.2", "state threading: addTx result stored to curState before the append/next call; Rebase installs the new base, deletes applied, re-applies every remaining tx once in order without mutating the list inside the loop, then deletes exactly the invalidated ones and returns them")
	r.Rule("C19.3", "WMW: Txs, curState, BaseState, isUpdated are written only by CheckAddTx and Rebase")
	r.Rule("C19.4", "CONF/CAP: the working state is confined to the kernel goroutine; request channels unbuffered, response channels capacity 1")

	add := w.Fn("gtxbuf.workingState.CheckAddTx")
	reb := w.Fn("gtxbuf.workingState.Rebase")
	if add == nil || reb == nil {
		r.Fail("C19.1", "anchor", "", "gtxbuf.workingState.CheckAddTx / Rebase not found")
		return
	}
	// ---- CheckAddTx
	{
		a := w.AU(add)
		var call ssa.Instruction
		a.Instrs(func(in ssa.Instruction) {
			if c, ok := in.(*ssa.Call); ok && isApplyFnValue(a, c.Call.Value) {
				call = in
			}
		})
		if call == nil {
			r.Fail("C19.1", "CheckAddTx#addTx", w.Pos(add.Pos()), "the apply function is never called")
		} else {
			args := callCommon(call).Args
			st := a.sh.Of(args[1]).String()
			tx := a.sh.Of(args[2]).String()
			r.Check(st == "phi(p0.BaseState|p0.curState)" && tx == "p2", "C19.1", "CheckAddTx#addTx(arguments)", w.InstrPos(call), "applies the offered tx to the working state: state="+st+" tx="+tx)
			// selection by isUpdated
			e1, _ := a.IfEdges("p0.isUpdated", true, nil)
			r.Check(len(e1) > 0, "C19.1", "CheckAddTx(selects-by-isUpdated)", w.Pos(add.Pos()), "the working state is curState when updated, BaseState otherwise")
			okEdges, _ := a.IfEdgesB("($c#1 == nil)", true, Bind{"$c": a.sh.Of(call.(ssa.Value))}, nil)
			n := 0
			a.Instrs(func(in ssa.Instruction) {
				st, ok := in.(*ssa.Store)
				if !ok {
					return
				}
				switch a.sh.Of(st.Addr).String() {
				case "p0.Txs":
					n++
					v := a.sh.Of(st.Val).String()
					r.Check(v == "@append(p0.Txs,[p2])" && len(okEdges) > 0 && a.EveryPathTakes(in, okEdges), "C19.1", "CheckAddTx#append", w.InstrPos(in), "append of the applied tx only when addTx returned no error: "+v)
					// threading: curState and isUpdated stored on the same path before returning
					hasCur, hasUpd := false, false
					for _, x := range in.Block().Instrs {
						if s2, ok := x.(*ssa.Store); ok {
							if a.sh.Of(s2.Addr).String() == "p0.curState" && a.sh.Of(s2.Val).String() == a.sh.Of(call.(ssa.Value)).String()+"#0" {
								hasCur = true
							}
							if a.sh.Of(s2.Addr).String() == "p0.isUpdated" && a.sh.Of(s2.Val).String() == "true" {
								hasUpd = true
							}
						}
					}
					r.Check(hasCur && hasUpd, "C19.2", "CheckAddTx(threads-state)", w.InstrPos(in), "the state returned by addTx becomes curState and isUpdated is set together with the append")
				}
			})
			if n == 0 {
				r.Fail("C19.1", "CheckAddTx#append", w.Pos(add.Pos()), "nothing is appended")
			}
		}
	}
	// ---- Rebase
	{
		a := w.A(reb)
		entry := reb.Blocks[0]
		got := map[string]string{}
		for _, in := range entry.Instrs {
			if st, ok := in.(*ssa.Store); ok {
				got[a.sh.Of(st.Addr).String()] = a.sh.Of(st.Val).String()
			}
		}
		r.Check(got["p0.BaseState"] == "p2" && got["p0.curState"] == "p2" && got["p0.isUpdated"] == "false", "C19.2", "Rebase(installs-base)", w.Pos(reb.Pos()), fmt.Sprintf("new base installed first: %v", got))
		var call ssa.Instruction
		a.Instrs(func(in ssa.Instruction) {
			if c, ok := in.(*ssa.Call); ok && isApplyFnValue(a, c.Call.Value) {
				call = in
			}
		})
		if call == nil {
			r.Fail("C19.2", "Rebase#addTx", w.Pos(reb.Pos()), "remaining transactions are not re-applied")
		} else {
			args := callCommon(call).Args
			st, tx := a.sh.Of(args[1]).String(), a.sh.Of(args[2]).String()
			r.Check(st == "p0.curState" && tx == "p0.Txs[#i]" && strings.HasPrefix(call.Block().Comment, "rangeindex"), "C19.2", "Rebase#addTx(arguments)", w.InstrPos(call),
				"each pending tx, visited by a range over the list, is applied to the threaded state: state="+st+" tx="+tx+" loop="+call.Block().Comment)
			// no mutation of the list inside the loop
			loopBlocks := loopOf(call.Block())
			mut := false
			for b := range loopBlocks {
				for _, in := range b.Instrs {
					if s2, ok := in.(*ssa.Store); ok && a.sh.Of(s2.Addr).String() == "p0.Txs" {
						mut = true
					}
				}
			}
			r.Check(!mut && len(loopBlocks) > 0, "C19.2", "Rebase(no-mutation-while-iterating)", w.InstrPos(call), "the pending list is not reassigned inside the loop that walks it (deleting while iterating skips elements)")
			// success edge threads the state
			okEdges, _ := a.IfEdgesB("($c#1 == nil)", true, Bind{"$c": a.sh.Of(call.(ssa.Value))}, nil)
			threaded := false
			a.Instrs(func(in ssa.Instruction) {
				if s2, ok := in.(*ssa.Store); ok && a.sh.Of(s2.Addr).String() == "p0.curState" && a.sh.Of(s2.Val).String() == a.sh.Of(call.(ssa.Value)).String()+"#0" {
					if len(okEdges) > 0 && a.EveryPathFromTakes(call.Block(), in, okEdges) && loopBlocks[in.Block()] {
						threaded = true
					}
				}
			})
			r.Check(threaded, "C19.2", "Rebase(threads-state)", w.InstrPos(call), "on success the returned state becomes curState before the next transaction is applied")
			// invalidated collected on the TxInvalidError edge, with the very tx
			coll := false
			a.Instrs(func(in ssa.Instruction) {
				if c, ok := in.(*ssa.Call); ok {
					if _, n := calleeName(&c.Call); n == "append" && loopBlocks[in.Block()] {
						if strings.HasSuffix(a.sh.Of(c).String(), ",[p0.Txs[#i]])") {
							coll = true
						}
					}
				}
			})
			r.Check(coll, "C19.2", "Rebase(collects-invalidated)", w.InstrPos(call), "a tx that no longer applies is collected as invalidated")
		}
		// deletes: applied before the loop, invalidated after it; result returned
		var dels []ssa.Instruction
		a.Instrs(func(in ssa.Instruction) {
			if s2, ok := in.(*ssa.Store); ok && a.sh.Of(s2.Addr).String() == "p0.Txs" {
				dels = append(dels, in)
			}
		})
		okApplied, okInval := false, false
		for _, d := range dels {
			v := a.sh.Of(d.(*ssa.Store).Val).String()
			if deleterOf.MatchString(v) && strings.HasSuffix(v, ",p1,p3))") && call != nil && Dominates(d, call) == false && ReachesAfter(d, call) {
				okApplied = true
			}
			if m := deleterOf.FindString(v); m != "" && strings.HasPrefix(strings.TrimPrefix(v, m), ",p1,phi(@append(") && call != nil && ReachesAfter(call, d) && !loopOf(call.Block())[d.Block()] {
				okInval = true
			}
		}
		r.Check(okApplied, "C19.2", "Rebase(deletes-applied-first)", w.Pos(reb.Pos()), "transactions reported applied are removed through the deleter before re-applying")
		r.Check(okInval, "C19.2", "Rebase(deletes-invalidated-after)", w.Pos(reb.Pos()), "exactly the collected invalidated transactions are removed through the deleter after the loop")
		retOK := false
		for _, ret := range a.Returns() {
			if strings.HasPrefix(a.sh.Of(ret.Results[0]).String(), "lit:gtxbuf.rebaseResponse{Invalidated:phi(@append(") {
				retOK = true
			}
		}
		r.Check(retOK, "C19.2", "Rebase(returns-invalidated)", w.Pos(reb.Pos()), "the invalidated transactions are returned to the caller")
	}
	// ---- C19.3
	fns := w.FuncsInPkg("gdriver/gtxbuf")
	for _, f := range []string{"Txs", "curState", "BaseState", "isUpdated"} {
		for _, fw := range w.FieldWrites(fns, "gtxbuf.workingState", f) {
			if fw.Kind != "store" {
				continue
			}
			fnn := FuncName(fw.Fn)
			ok := fnn == "gtxbuf.workingState.CheckAddTx" || fnn == "gtxbuf.workingState.Rebase" || fnn == "gtxbuf.Buffer.kernel"
			r.Check(ok, "C19.3", "write("+f+")@"+fnn, w.InstrPos(fw.Instr), "pending-list state written here")
		}
	}
	// ---- C19.4
	if k := w.Fn("gtxbuf.Buffer.kernel"); k != nil {
		a := w.AU(k)
		var ws *ssa.Alloc
		a.Instrs(func(in ssa.Instruction) {
			if al, ok := in.(*ssa.Alloc); ok && strings.Contains(TypeName(al.Type()), "workingState") {
				ws = al
			}
		})
		ok := ws != nil
		if ok && ws.Referrers() != nil {
			for _, ref := range *ws.Referrers() {
				switch x := ref.(type) {
				case *ssa.Go:
					ok = false
				case *ssa.Call:
					_ = x
				case *ssa.Send:
					ok = false
				case *ssa.MakeClosure:
					ok = false
				}
			}
		}
		goCalls := 0
		a.Instrs(func(in ssa.Instruction) {
			if _, isGo := in.(*ssa.Go); isGo {
				goCalls++
			}
		})
		r.Check(ok && goCalls == 0, "C19.4", "gtxbuf.Buffer.kernel(confinement)", w.Pos(k.Pos()), "the working state is a local whose address goes only to synchronous calls; the kernel starts no goroutine")
	}
	if n := w.Fn("gtxbuf.New"); n != nil {
		a := w.AU(n)
		okReq := true
		cnt := 0
		a.Instrs(func(in ssa.Instruction) {
			if mc, ok := in.(*ssa.MakeChan); ok {
				t := mc.Type().String()
				if strings.Contains(t, "Request") {
					cnt++
					if a.sh.Of(mc.Size).String() != "0" {
						okReq = false
					}
				}
			}
		})
		r.Check(okReq && cnt == 3, "C19.4", "gtxbuf.New(request-channels)", w.Pos(n.Pos()), fmt.Sprintf("%d request channels, unbuffered: %v", cnt, okReq))
	}
	for _, name := range []string{"gtxbuf.Buffer.AddTx", "gtxbuf.Buffer.Buffered", "gtxbuf.Buffer.Rebase"} {
		fn := w.Fn(name)
		if fn == nil {
			r.Fail("C19.4", name, "", "not found")
			continue
		}
		a := w.AU(fn)
		ok := false
		a.Instrs(func(in ssa.Instruction) {
			if mc, isMC := in.(*ssa.MakeChan); isMC && a.sh.Of(mc.Size).String() == "1" {
				ok = true
			}
		})
		r.Check(ok, "C19.4", name+"(response-channel)", w.Pos(fn.Pos()), "the response channel has capacity 1, so the kernel's reply never blocks on a departed caller")
	}
	// what leaves the kernel goroutine is a copy: the slice Buffered hands to readers is built by
	// appending the pending transactions to the caller's storage, never the pending list itself
	// (or a re-slice / Clip of it), which later Rebase compaction and the reader would share
	if fn := findWS(w, "Buffered"); fn != nil {
		a := w.AU(fn)
		n := 0
		for _, ret := range a.Returns() {
			n++
			alias := aliasesField(ret.Results[0], "Txs", 0)
			r.Check(!alias, "C19.4", fmt.Sprintf("workingState.Buffered#return%d(copy)", n), w.InstrPos(ret), "the returned slice must not alias the pending list: "+truncate(a.sh.Of(ret.Results[0]).String(), 120))
		}
		if n == 0 {
			r.Fail("C19.4", "workingState.Buffered#return(copy)", w.Pos(fn.Pos()), "no return found")
		}
	} else {
		r.Fail("C19.4", "workingState.Buffered", "", "not found")
	}
	r.Expect("C19.1", 3, "apply-before-append")
	r.Expect("C19.2", 9, "threading and rebase")
	r.Expect("C19.3", 6, "writers")
	r.Expect("C19.4", 5, "confinement and channels")
}

// loopOf returns the blocks of the innermost natural loop containing b
// (blocks that can reach b and are reachable from b).
func loopOf(b *ssa.BasicBlock) map[*ssa.BasicBlock]bool {
	fwd := map[*ssa.BasicBlock]bool{}
	work := []*ssa.BasicBlock{b}
	for len(work) > 0 {
		x := work[len(work)-1]
		work = work[:len(work)-1]
		for _, s := range x.Succs {
			if !fwd[s] {
				fwd[s] = true
				work = append(work, s)
			}
		}
	}
	if !fwd[b] {
		return map[*ssa.BasicBlock]bool{}
	}
	out := map[*ssa.BasicBlock]bool{}
	for x := range fwd {
		// x reaches b?
		seen := map[*ssa.BasicBlock]bool{}
		w2 := []*ssa.BasicBlock{x}
		reaches := x == b
		for len(w2) > 0 && !reaches {
			y := w2[len(w2)-1]
			w2 = w2[:len(w2)-1]
			for _, s := range y.Succs {
				if s == b {
					reaches = true
					break
				}
				if !seen[s] {
					seen[s] = true
					w2 = append(w2, s)
				}
			}
		}
		if reaches {
			out[x] = true
		}
	}
	return out
}

// findWS finds the (generic) workingState method by name.
func findWS(w *World, name string) *ssa.Function {
	for _, fn := range w.FuncsInPkg("gdriver/gtxbuf") {
		if fn.Name() == name && fn.Signature.Recv() != nil && strings.Contains(fn.Signature.Recv().Type().String(), "workingState") {
			return fn
		}
	}
	return nil
}

// aliasesField: the slice value shares its backing array with the receiver's field:
// the field itself, a re-slice, or the result of a pass-through (slices.Clip/Grow, append with
// the field as its first argument).
func aliasesField(v ssa.Value, field string, depth int) bool {
	if v == nil || depth > 8 {
		return false
	}
	switch x := v.(type) {
	case *ssa.Slice:
		return aliasesField(x.X, field, depth+1)
	case *ssa.ChangeType:
		return aliasesField(x.X, field, depth+1)
	case *ssa.Phi:
		for _, e := range x.Edges {
			if aliasesField(e, field, depth+1) {
				return true
			}
		}
	case *ssa.UnOp:
		if fa, ok := x.X.(*ssa.FieldAddr); ok && fieldName(fa.X.Type(), fa.Field) == field {
			return true
		}
		if rs := reachingStore(x); rs != nil {
			return aliasesField(rs, field, depth+1)
		}
	case *ssa.Call:
		if b, ok := x.Call.Value.(*ssa.Builtin); ok && b.Name() == "append" {
			return aliasesField(x.Call.Args[0], field, depth+1)
		}
		if _, n := calleeName(&x.Call); strings.HasPrefix(n, "slices.Clip") || strings.HasPrefix(n, "slices.Grow") || strings.HasPrefix(n, "slices.Compact") || strings.HasPrefix(n, "slices.DeleteFunc") {
			return aliasesField(x.Call.Args[0], field, depth+1)
		}
	}
	return false
}

// the deleter callback: a func-typed field reached from the working state (whatever struct groups
// the callbacks), applied to (ctx, rejected)
var deleterOf = regexp.MustCompile(`^@slices\.DeleteFunc\(p0\.Txs,@\?\(p0(\.\w+)*\.txDeleter`)

// isApplyFnValue: v is the user-supplied apply function held by the working state: a func value
// loaded from a field path of the receiver with signature func(ctx, S, T) (S, error).
func isApplyFnValue(a *FnA, v ssa.Value) bool {
	sig, ok := v.Type().Underlying().(*types.Signature)
	if !ok || sig.Params().Len() != 3 || sig.Results().Len() != 2 {
		return false
	}
	if sig.Results().At(1).Type().String() != "error" {
		return false
	}
	s := a.sh.Of(v).String()
	return strings.HasPrefix(s, "p0.") && !strings.Contains(s, "(")
}
