package main

import (
	"fmt"
	"go/token"
	"strconv"
	"strings"

	"golang.org/x/tools/go/ssa"
)

// Shared rules over the mirror kernel (package tmi) used by C04, C06, C07, C10, C11.

func tmiFuncs(w *World) []*ssa.Function { return w.FuncsInPkg("tmmirror/internal/tmi") }

// commitPathOrder (C04.7 / C10.1): in the function that shifts voting to
// committing, the committed header is saved after the shift and before the
// persisted position (SetNetworkHeightRound via updateObservers) moves; the
// position update happens only if the save succeeded.
func commitPathOrder(r *Run, rule string) {
	w := r.W
	prod := w.ProdFuncs()
	r.Rule(rule, "DOM on the commit path: view shift -> CommittedHeaderStore.SaveCommittedHeader (error returned) -> MirrorStore.SetNetworkHeightRound; the position never names a committing height whose header has not been stored")
	shifts := w.CallersOf(prod, "tmi.kState.ShiftVotingToCommitting")
	if len(shifts) != 1 {
		r.Fail(rule, "shift-caller", "", fmt.Sprintf("expected exactly one caller of ShiftVotingToCommitting, found %d", len(shifts)))
		return
	}
	fn := shifts[0].Fn
	a := w.A(fn)
	shift := shifts[0].Instr
	// position writers reachable in this function: direct SetNetworkHeightRound or a helper that calls it
	posHelpers := map[string]bool{"tmstore.MirrorStore.SetNetworkHeightRound": true}
	for _, c := range w.CallersOf(prod, "tmstore.MirrorStore.SetNetworkHeightRound") {
		posHelpers[FuncName(c.Fn)] = true
	}
	saveHelpers := map[string]bool{"tmstore.CommittedHeaderStore.SaveCommittedHeader": true}
	for _, c := range w.CallersOf(prod, "tmstore.CommittedHeaderStore.SaveCommittedHeader") {
		saveHelpers[FuncName(c.Fn)] = true
	}
	var posCalls, saveCalls []ssa.Instruction
	a.Instrs(func(in ssa.Instruction) {
		c := callCommon(in)
		if c == nil {
			return
		}
		_, n := calleeName(c)
		if posHelpers[n] {
			posCalls = append(posCalls, in)
		}
		if saveHelpers[n] {
			saveCalls = append(saveCalls, in)
		}
	})
	if len(saveCalls) == 0 {
		r.Fail(rule, FuncName(fn)+"#save", w.Pos(fn.Pos()), "the shift function does not save the committed header")
		return
	}
	n := 0
	for _, pc := range posCalls {
		if !ReachesAfter(shift, pc) {
			continue // round advance paths: no new committing header
		}
		n++
		con := fmt.Sprintf("%s#position-update%d", FuncName(fn), n)
		okDom := false
		for _, sc := range saveCalls {
			if Dominates(sc, pc) && Dominates(shift, sc) {
				e, _ := a.IfEdgesB("($save == nil)", true, Bind{"$save": a.sh.Of(sc.(ssa.Value))}, nil)
				if len(e) > 0 && a.EveryPathFromTakes(sc.Block(), pc, e) {
					okDom = true
				}
			}
		}
		r.Check(okDom, rule, con, w.InstrPos(pc), "after the view shift, the persisted network position may move only after the committed header was saved successfully")
	}
	if n == 0 {
		r.Fail(rule, FuncName(fn)+"#position-update", w.Pos(fn.Pos()), "no position update follows the shift")
	}
}

// recomputeAfterMutation (C06.3 / C11.1 / C10.2): every store into a view's
// proof map is followed, on every path to the function's exit, by the
// recomputation of that kind's powers, the mark-updated call and the round store write.
func recomputeAfterMutation(r *Run, rule string, need []string) {
	w := r.W
	r.Rule(rule, "every write into a kernel view's prevote/precommit proof map is followed on every path to the function exit by: "+strings.Join(need, ", "))
	ord := Ord{}
	n := 0
	for _, fn := range tmiFuncs(w) {
		a := w.A(fn)
		a.Instrs(func(in ssa.Instruction) {
			up, ok := in.(*ssa.MapUpdate)
			if ok && writesCallerOwnedView(w, fn, up.Map) {
				return // fills the caller's snapshot copy, not kernel state
			}
			if !ok {
				return
			}
			m := a.sh.Of(up.Map).String()
			kind := ""
			switch {
			case strings.HasSuffix(m, ".PrevoteProofs"):
				kind = "Prevote"
			case strings.HasSuffix(m, ".PrecommitProofs"):
				kind = "Precommit"
			default:
				return
			}
			n++
			for _, what := range need {
				con := ord.Next(FuncName(fn) + "#" + kind + "Proofs[]=(" + what + ")")
				hit := func(x ssa.Instruction) bool {
					c := callCommon(x)
					if c == nil {
						return false
					}
					_, cn := calleeName(c)
					switch what {
					case "recompute":
						return cn == "tmconsensus.VoteSummary.Set"+kind+"Powers"
					case "mark":
						return cn == "tmi.kState.MarkViewUpdated" || cn == "tmi.kState.MarkVotingViewUpdated" || cn == "tmi.kState.MarkCommittingViewUpdated" || cn == "tmi.kState.MarkNextRoundViewUpdated" ||
							cn == "tmi.kState.ShiftVotingToCommitting" || cn == "tmi.Kernel.checkVotingPrecommitViewShift"
					case "persist":
						return cn == "tmstore.RoundStore.OverwriteRound"+kind+"Proofs"
					}
					return false
				}
				hitOrFatal := func(x ssa.Instruction) bool {
					if hit(x) {
						return true
					}
					// an internal (store) error return stops the kernel: nothing further is published
					if ret, isRet := x.(*ssa.Return); isRet && len(ret.Results) == 1 && strings.Contains(a.sh.Of(ret.Results[0]).String(), "InternalError") {
						return true
					}
					return false
				}
				ok, wit := AllPathsAfterHit(in, hitOrFatal)
				det := "after storing a " + kind + " proof into " + truncate(m, 60)
				if !ok && wit != nil {
					det += "; a path reaches the return at " + w.InstrPos(wit) + " without it"
				}
				r.Check(ok, rule, con, w.InstrPos(in), det)
			}
		})
	}
	if n < 3 {
		r.Fail(rule, "instances", "", fmt.Sprintf("expected at least 3 proof-map writes in the kernel, found %d", n))
	}
}

// availablePowerCoherence (C06.5 / C07.1): the available power of a view is
// computed from, or copied from a view holding, the validator set assigned to that view.
func availablePowerCoherence(r *Run, rule string) {
	w := r.W
	r.Rule(rule, "a view's VoteSummary.AvailablePower is SetAvailablePower(validators of the set assigned to that view) or copied from a view that was assigned the same set")
	for _, name := range []string{"tmi.kState.ShiftVotingToCommitting"} {
		fn := w.Fn(name)
		if fn == nil {
			r.Fail(rule, name, "", "function not found")
			continue
		}
		a := w.AU(fn)
		// validator set source per view
		vsSrc := map[string]string{}
		apSrc := map[string]string{}
		a.Instrs(func(in ssa.Instruction) {
			switch x := in.(type) {
			case *ssa.Store:
				addr := a.sh.Of(x.Addr).String()
				val := a.sh.Of(x.Val)
				for _, v := range []string{"Voting", "NextRound"} {
					if addr == "p0."+v {
						if b, ok := Match("lit:tmconsensus.VersionedRoundView{RoundView:lit:tmconsensus.RoundView{ValidatorSet:$vs,$...},$...}", val); ok {
							vsSrc[v] = b["$vs"].String()
						}
					}
					if addr == "p0."+v+".RoundView.ValidatorSet" {
						vsSrc[v] = val.String()
					}
					if addr == "p0."+v+".RoundView.VoteSummary.AvailablePower" {
						apSrc[v] = "copy:" + val.String()
					}
				}
			case *ssa.Call:
				_, cn := calleeName(&x.Call)
				if cn == "tmconsensus.VoteSummary.SetAvailablePower" {
					recv := a.sh.Of(x.Call.Args[0]).String()
					arg := a.sh.Of(x.Call.Args[1]).String()
					for _, v := range []string{"Voting", "NextRound"} {
						if recv == "p0."+v+".RoundView.VoteSummary" {
							apSrc[v] = "sum:" + arg
						}
					}
				}
			}
		})
		for _, v := range []string{"Voting", "NextRound"} {
			con := name + "(" + v + ")"
			vs, ap := vsSrc[v], apSrc[v]
			ok := false
			switch {
			case vs == "" || ap == "":
			case strings.HasPrefix(ap, "sum:"):
				ok = ap == "sum:"+vs+".Validators"
			case strings.HasPrefix(ap, "copy:"):
				for _, o := range []string{"Voting", "NextRound"} {
					if ap == "copy:p0."+o+".RoundView.VoteSummary.AvailablePower" && o != v && vsSrc[o] == vs && strings.HasPrefix(apSrc[o], "sum:") {
						ok = true
					}
				}
			}
			r.Check(ok, rule, con, w.Pos(fn.Pos()), fmt.Sprintf("validator set of the new %s view: %s; its available power: %s", v, vs, ap))
		}
	}
	// start-up loader: available power summed over the very set stored in the view
	if fn := w.Fn("tmi.Kernel.loadInitialView"); fn != nil {
		a := w.AU(fn)
		calls := a.CallsTo("tmconsensus.VoteSummary.SetAvailablePower")
		ok := len(calls) == 1
		det := ""
		if ok {
			arg := a.sh.Of(CallArg(calls[0], 1)).String()
			det = arg
			ok = strings.HasSuffix(arg, ".ValidatorSet.Validators") || arg == "p4.Validators"
		}
		r.Check(ok, rule, "tmi.Kernel.loadInitialView", w.Pos(fn.Pos()), "start-up view sums available power over its own validator set: "+det)
	}
	// the sum itself
	if fn := w.Fn("tmconsensus.VoteSummary.SetAvailablePower"); fn != nil {
		a := w.AU(fn)
		var stores []string
		a.Instrs(func(in ssa.Instruction) {
			if st, ok := in.(*ssa.Store); ok && a.sh.Of(st.Addr).String() == "p0.AvailablePower" {
				stores = append(stores, a.sh.Of(st.Val).String())
			}
		})
		ok := len(stores) == 2 && stores[0] == "0" && stores[1] == "(p0.AvailablePower + p1[#i].Power)"
		r.Check(ok, rule, "tmconsensus.VoteSummary.SetAvailablePower", w.Pos(fn.Pos()), "available power is reset and then the plain sum of the validators' powers: "+strings.Join(stores, " ; "))
	}
}

// writesCallerOwnedView reports whether the view whose field addr/value v belongs to is
// not kernel state but a round view handed in by the caller for filling (the
// snapshot copy made for view-lookup requests): its root is a *VersionedRoundView
// parameter, and no caller passes a pointer into kState (or a FindView result)
// for it. Found by role, so renaming the copying function or turning it from a
// method into a function does not matter.
func writesCallerOwnedView(w *World, fn *ssa.Function, v ssa.Value) bool {
	root := v
	for {
		switch x := root.(type) {
		case *ssa.FieldAddr:
			root = x.X
			continue
		case *ssa.IndexAddr:
			root = x.X
			continue
		case *ssa.UnOp:
			if x.Op == token.MUL {
				root = x.X
				continue
			}
		}
		break
	}
	par, ok := root.(*ssa.Parameter)
	if !ok || TypeName(par.Type()) != "tmconsensus.VersionedRoundView" {
		return false
	}
	idx := -1
	for i, p := range fn.Params {
		if p == par {
			idx = i
		}
	}
	if idx < 0 {
		return false
	}
	ncall := 0
	for _, c := range w.CallersOf(w.ProdFuncs(), FuncName(fn)) {
		ncall++
		cc := callCommon(c.Instr)
		if idx >= len(cc.Args) {
			return false
		}
		s := w.A(c.Fn).sh.Of(cc.Args[idx]).String()
		kernelState := false
		for _, p := range c.Fn.Params {
			if TypeName(p.Type()) == "tmi.kState" && strings.Contains(s, "p"+strconv.Itoa(paramIndex(c.Fn, p))+".") && strings.HasPrefix(s, "(&p") {
				kernelState = true
			}
		}
		if strings.Contains(s, "kState.FindView(") && strings.HasSuffix(s, "#0") {
			kernelState = true
		}
		if kernelState {
			return false
		}
	}
	return ncall > 0
}

// freshActionsChannel (C02.9 / C05.7): a local vote travels to the mirror without height or round;
// the mirror files it under the round of the entrance whose Actions channel it read it from. Every
// round entrance therefore carries a channel made for that entrance: a channel reused across rounds
// lets a vote still queued for round R be read, and stored and gossiped, as a vote of round R+1.
func freshActionsChannel(r *Run, rule string) {
	w := r.W
	r.Rule(rule, "every StateMachineRoundEntrance.Actions channel is made for that entrance (never a channel kept from an earlier round), so a queued local vote cannot be filed under a later round")
	n := 0
	for _, fn := range append(w.FuncsInPkg("tmengine/internal/tmstate"), w.FuncsInPkg("tmstate/internal/tsi")...) {
		a := w.A(fn)
		ord := Ord{}
		a.Instrs(func(in ssa.Instruction) {
			st, ok := in.(*ssa.Store)
			if !ok || lastField(st.Addr) != "tmeil.StateMachineRoundEntrance.Actions" {
				return
			}
			n++
			v := a.sh.Of(st.Val)
			alts := []*Shape{v}
			if v.K == "phi" {
				alts = v.A
			}
			okAll := true
			for _, alt := range alts {
				s := alt.String()
				if !(strings.HasPrefix(s, "make:chan(") || s == "nil") {
					okAll = false
				}
			}
			r.Check(okAll, rule, ord.Next(FuncName(fn)+"#entrance-actions"), w.InstrPos(in), "Actions of a round entrance is "+truncate(v.String(), 120))
		})
		// literals with an Actions field
		a.Instrs(func(in ssa.Instruction) {
			st, ok := in.(*ssa.Store)
			if !ok {
				return
			}
			if b, m := Match("lit:tmeil.StateMachineRoundEntrance{Actions:$c,$...}", a.sh.Of(st.Val)); m {
				n++
				s := b["$c"].String()
				r.Check(strings.HasPrefix(s, "make:chan(") || s == "nil", rule, ord.Next(FuncName(fn)+"#entrance-actions"), w.InstrPos(in), "Actions of a round entrance is "+truncate(s, 120))
			}
		})
	}
	if n == 0 {
		r.Fail(rule, "entrance-actions", "", "no assignment of a round entrance's Actions channel found")
	}
}
