package main

import (
	"fmt"
	"go/constant"
	"go/token"
	"go/types"
	"sort"
	"strconv"
	"strings"

	"golang.org/x/tools/go/ssa"
)

// Shape is the canonical, name-independent rendering of an SSA value
// (DESIGN.md §2.5). Conversions, interface boxing, address-taken locals with
// one store and phis of identical values are transparent.
type Shape struct {
	K string // const param free ref fld idx call invoke dyn bin un phi ext load lit make slice assert rk rv next var unk closure
	S string
	A []*Shape
	F []string // field names for lit (parallel to A)
}

func (s *Shape) String() string {
	if s == nil {
		return "<nil>"
	}
	switch s.K {
	case "const", "param", "free", "ref", "var", "unk":
		return s.S
	case "fld":
		return s.A[0].String() + "." + s.S
	case "idx":
		return s.A[0].String() + "[" + s.A[1].String() + "]"
	case "call":
		return "@" + s.S + "(" + joinShapes(s.A, ",") + ")"
	case "invoke":
		return "@@" + s.S + "(" + joinShapes(s.A, ",") + ")"
	case "dyn":
		return "@?(" + joinShapes(s.A, ",") + ")"
	case "bin":
		return "(" + s.A[0].String() + " " + s.S + " " + s.A[1].String() + ")"
	case "un":
		return "(" + s.S + s.A[0].String() + ")"
	case "phi":
		return "phi(" + joinShapes(s.A, "|") + ")"
	case "ext":
		return s.A[0].String() + "#" + s.S
	case "load":
		return "*" + s.A[0].String()
	case "lit":
		var parts []string
		for i, f := range s.F {
			parts = append(parts, f+":"+s.A[i].String())
		}
		return "lit:" + s.S + "{" + strings.Join(parts, ",") + "}"
	case "make":
		return "make:" + s.S + "(" + joinShapes(s.A, ",") + ")"
	case "slice":
		return s.A[0].String() + "[:]"
	case "assert":
		return s.A[0].String() + ".(" + s.S + ")"
	case "rk":
		return "rk(" + s.A[0].String() + ")"
	case "rv":
		return "rv(" + s.A[0].String() + ")"
	case "closure":
		return "closure:" + s.S
	case "list":
		return "[" + joinShapes(s.A, ",") + "]"
	}
	return "?" + s.K
}

func joinShapes(a []*Shape, sep string) string {
	var p []string
	for _, x := range a {
		p = append(p, x.String())
	}
	return strings.Join(p, sep)
}

// Shaper computes shapes for values of one function.
type Shaper struct {
	w     *World
	fn    *ssa.Function
	memo  map[ssa.Value]*Shape
	busy  map[ssa.Value]bool
	depth int
	// allocStores caches, per alloc, the stores made to it (whole value) and per-field stores
	stores map[*ssa.Alloc]*allocInfo
	unit   *unitInfo // set for the anchor of a unit: values of folded helpers are rendered in its terms
}

type allocInfo struct {
	whole    []ssa.Value         // values stored to the alloc itself
	fields   map[int][]ssa.Value // values stored through FieldAddr(alloc, i)
	escapes  bool                // address used other than load/store/fieldaddr-load/store
	fieldAdr map[int][]*ssa.FieldAddr
}

func (w *World) Shaper(fn *ssa.Function) *Shaper {
	return &Shaper{w: w, fn: fn, memo: map[ssa.Value]*Shape{}, busy: map[ssa.Value]bool{}, stores: map[*ssa.Alloc]*allocInfo{}}
}

func atom(k, s string) *Shape { return &Shape{K: k, S: s} }

func (sh *Shaper) allocInfo(a *ssa.Alloc) *allocInfo {
	if ai, ok := sh.stores[a]; ok {
		return ai
	}
	ai := &allocInfo{fields: map[int][]ssa.Value{}, fieldAdr: map[int][]*ssa.FieldAddr{}}
	sh.stores[a] = ai
	if a.Referrers() == nil {
		return ai
	}
	for _, r := range *a.Referrers() {
		switch r := r.(type) {
		case *ssa.Store:
			if r.Addr == a {
				ai.whole = append(ai.whole, r.Val)
			} else {
				ai.escapes = true
			}
		case *ssa.UnOp:
			// load
		case *ssa.FieldAddr:
			ai.fieldAdr[r.Field] = append(ai.fieldAdr[r.Field], r)
			if r.Referrers() != nil {
				for _, rr := range *r.Referrers() {
					switch rr := rr.(type) {
					case *ssa.Store:
						if rr.Addr == r {
							ai.fields[r.Field] = append(ai.fields[r.Field], rr.Val)
						} else {
							ai.escapes = true
						}
					case *ssa.UnOp, *ssa.DebugRef:
					default:
						// nested field address, call with pointer, etc.
						ai.escapes = true
					}
				}
			}
		case *ssa.DebugRef:
		case *ssa.MakeClosure:
			// captured by a closure: harmless when the closure only reads the variable
			if !closureOnlyReads(r, a) {
				ai.escapes = true
			}
		default:
			ai.escapes = true
		}
	}
	return ai
}

// closureOnlyReads: the closure receives addr as a binding and never stores through the
// corresponding free variable (nor passes it on).
func closureOnlyReads(mc *ssa.MakeClosure, addr ssa.Value) bool {
	fn, ok := mc.Fn.(*ssa.Function)
	if !ok {
		return false
	}
	for j, b := range mc.Bindings {
		if b != addr || j >= len(fn.FreeVars) {
			continue
		}
		fv := fn.FreeVars[j]
		if fv.Referrers() == nil {
			continue
		}
		var okUse func(v ssa.Value, depth int) bool
		okUse = func(v ssa.Value, depth int) bool {
			if v.Referrers() == nil || depth > 4 {
				return depth <= 4
			}
			for _, ref := range *v.Referrers() {
				switch x := ref.(type) {
				case *ssa.UnOp, *ssa.DebugRef:
				case *ssa.FieldAddr:
					if !okUse(x, depth+1) {
						return false
					}
				case *ssa.IndexAddr:
					if !okUse(x, depth+1) {
						return false
					}
				default:
					return false
				}
			}
			return true
		}
		if !okUse(fv, 0) {
			return false
		}
	}
	return true
}

// Of returns the shape of v.
func (sh *Shaper) Of(v ssa.Value) *Shape {
	if v == nil {
		return atom("unk", "nil?")
	}
	if s, ok := sh.memo[v]; ok {
		return s
	}
	if sh.unit != nil {
		// the result of a folded helper (a closure invoked on the spot, a split-off tail) that has
		// one return is that return's value, in the anchor's terms
		var call *ssa.Call
		ri := 0
		switch x := v.(type) {
		case *ssa.Call:
			call = x
		case *ssa.Extract:
			if c, ok := x.Tuple.(*ssa.Call); ok {
				call, ri = c, x.Index
			}
		}
		if call != nil {
			// (only folded helpers: closures invoked on the spot and functions split off after the
			// rules were written; calls of the known functions keep their @name(...) form)
			if callee := call.Call.StaticCallee(); callee != nil && sh.unit.by[callee] != nil && sh.unit.by[callee].call == call {
				var rets []*ssa.Return
				for _, b := range callee.Blocks {
					if r, ok := b.Instrs[len(b.Instrs)-1].(*ssa.Return); ok && !(b.Comment == "recover" && len(b.Preds) == 0) {
						rets = append(rets, r)
					}
				}
				_, isCall := v.(*ssa.Call)
				if len(rets) >= 1 && len(rets) <= 8 && ri < len(rets[0].Results) && (!isCall || len(rets[0].Results) == 1) && !sh.busy[v] {
					sh.busy[v] = true
					var alts []*Shape
					for _, r := range rets {
						alts = append(alts, sh.Of(r.Results[ri]))
					}
					s := mkPhi(alts)
					delete(sh.busy, v)
					sh.memo[v] = s
					return s
				}
			}
		}
		if pf := valueParent(v); pf != nil && pf != sh.fn && sh.unit.by[pf] != nil {
			if sh.busy[v] {
				return atom("unk", "loop")
			}
			sh.busy[v] = true
			s := sh.unit.ofForeign(v, pf)
			delete(sh.busy, v)
			sh.memo[v] = s
			return s
		}
	}
	if sh.busy[v] {
		return atom("unk", "loop")
	}
	if sh.depth > 40 {
		return atom("unk", "deep")
	}
	sh.busy[v] = true
	sh.depth++
	s := sh.of(v)
	sh.depth--
	delete(sh.busy, v)
	sh.memo[v] = s
	return s
}

func fieldName(t types.Type, i int) string {
	for {
		if p, ok := t.Underlying().(*types.Pointer); ok {
			t = p.Elem()
			continue
		}
		break
	}
	if st, ok := t.Underlying().(*types.Struct); ok && i < st.NumFields() {
		return st.Field(i).Name()
	}
	return "f" + strconv.Itoa(i)
}

func (sh *Shaper) constShape(c *ssa.Const) *Shape {
	if c.Value == nil {
		// zero value / nil
		t := c.Type()
		switch u := t.Underlying().(type) {
		case *types.Basic:
			if u.Info()&types.IsString != 0 {
				return atom("const", `""`)
			}
			if u.Info()&types.IsNumeric != 0 {
				return atom("const", "0")
			}
			if u.Info()&types.IsBoolean != 0 {
				return atom("const", "false")
			}
			return atom("const", "nil")
		case *types.Struct, *types.Array:
			return atom("const", "zero:"+TypeName(t))
		}
		return atom("const", "nil")
	}
	if _, ok := types.Unalias(c.Type()).(*types.Named); ok {
		if m := sh.w.consts[TypeName(c.Type())]; m != nil {
			if n, ok := m[c.Value.ExactString()]; ok {
				return atom("const", "%"+n)
			}
		}
	}
	switch c.Value.Kind() {
	case constant.String:
		return atom("const", strconv.Quote(constant.StringVal(c.Value)))
	case constant.Bool:
		return atom("const", c.Value.String())
	default:
		return atom("const", c.Value.ExactString())
	}
}

func calleeName(c *ssa.CallCommon) (kind, name string) {
	if c.IsInvoke() {
		return "invoke", TypeName(c.Value.Type()) + "." + c.Method.Name()
	}
	if f := c.StaticCallee(); f != nil {
		return "call", FuncName(f)
	}
	if b, ok := c.Value.(*ssa.Builtin); ok {
		return "call", b.Name()
	}
	return "dyn", ""
}

func (sh *Shaper) callShape(c *ssa.CallCommon) *Shape {
	kind, name := calleeName(c)
	s := &Shape{K: kind, S: name}
	if kind == "invoke" {
		s.A = append(s.A, sh.Of(c.Value))
	}
	if kind == "dyn" {
		s.A = append(s.A, sh.Of(c.Value))
	}
	if kind == "call" {
		if mc, ok := c.Value.(*ssa.MakeClosure); ok {
			_ = mc
		}
	}
	for _, a := range c.Args {
		s.A = append(s.A, sh.Of(a))
	}
	return s
}

func isRangeIndexPhi(p *ssa.Phi) bool {
	for _, e := range p.Edges {
		if c, ok := e.(*ssa.Const); ok && c.Value != nil && c.Value.Kind() == constant.Int && c.Value.ExactString() == "-1" {
			return true
		}
	}
	return false
}

// mkFld selects a field; selecting from a literal yields the field's value.
func mkFld(base *Shape, name string) *Shape {
	if base.K == "idx" {
		// element of a locally built slice of literals: select the field of the appended literals
		if elems := sliceElems(base.A[0], 0); len(elems) > 0 {
			var alts []*Shape
			ok := true
			for _, e := range elems {
				if e.K != "lit" {
					ok = false
					break
				}
				f := mkFld(e, name)
				if f.K == "fld" && f.A[0] == e {
					ok = false
					break
				}
				alts = append(alts, f)
			}
			if ok && len(alts) > 0 {
				return mkPhi(alts)
			}
		}
	}
	if base.K == "lit" {
		for i, f := range base.F {
			if f == name {
				return base.A[i]
			}
		}
	}
	return &Shape{K: "fld", S: name, A: []*Shape{base}}
}

// sliceElems lists the element shapes of a slice built by append(..., [e...]).
func sliceElems(s *Shape, depth int) []*Shape {
	if depth > 6 {
		return nil
	}
	switch {
	case s.K == "call" && s.S == "append" && len(s.A) == 2:
		out := sliceElems(s.A[0], depth+1)
		if s.A[1].K == "list" {
			out = append(out, s.A[1].A...)
		} else {
			return nil
		}
		return out
	case s.K == "phi":
		var out []*Shape
		for _, a := range s.A {
			out = append(out, sliceElems(a, depth+1)...)
		}
		return out
	}
	return nil
}

func mkPhi(alts []*Shape) *Shape {
	seen := map[string]*Shape{}
	for _, a := range alts {
		if a.K == "phi" {
			for _, b := range a.A {
				seen[b.String()] = b
			}
			continue
		}
		seen[a.String()] = a
	}
	// a self-referential loop alternative carries no information
	if len(seen) > 1 {
		delete(seen, "loop")
	}
	keys := make([]string, 0, len(seen))
	for k := range seen {
		keys = append(keys, k)
	}
	sort.Strings(keys)
	if len(keys) == 1 {
		return seen[keys[0]]
	}
	p := &Shape{K: "phi"}
	for _, k := range keys {
		p.A = append(p.A, seen[k])
	}
	return p
}

func (sh *Shaper) of(v ssa.Value) *Shape {
	switch v := v.(type) {
	case *ssa.Const:
		return sh.constShape(v)
	case *ssa.Parameter:
		for i, p := range v.Parent().Params {
			if p == v {
				return atom("param", "p"+strconv.Itoa(i))
			}
		}
		return atom("param", "p?")
	case *ssa.FreeVar:
		return atom("free", "^"+v.Name())
	case *ssa.Global:
		pk := ""
		if v.Pkg != nil {
			pk = v.Pkg.Pkg.Name()
		}
		return atom("ref", "%"+pk+"."+v.Name())
	case *ssa.Function:
		return atom("ref", "%"+FuncName(v))
	case *ssa.Builtin:
		return atom("ref", "%"+v.Name())
	case *ssa.Alloc:
		// the address of a local assigned exactly once: render through the stored value
		ai := sh.allocInfo(v)
		if len(ai.whole) == 1 && len(ai.fields) == 0 {
			return &Shape{K: "un", S: "&", A: []*Shape{sh.Of(ai.whole[0])}}
		}
		return atom("ref", "&"+allocName(v))
	case *ssa.FieldAddr:
		return mkFld(sh.addrBase(v.X), fieldName(v.X.Type(), v.Field))
	case *ssa.Field:
		return mkFld(sh.Of(v.X), fieldName(v.X.Type(), v.Field))
	case *ssa.IndexAddr:
		return &Shape{K: "idx", A: []*Shape{sh.addrBase(v.X), sh.Of(v.Index)}}
	case *ssa.Index:
		return &Shape{K: "idx", A: []*Shape{sh.Of(v.X), sh.Of(v.Index)}}
	case *ssa.Lookup:
		return &Shape{K: "idx", A: []*Shape{sh.Of(v.X), sh.Of(v.Index)}}
	case *ssa.UnOp:
		switch v.Op {
		case token.MUL:
			if rs := reachingStore(v); rs != nil {
				return sh.Of(rs)
			}
			return sh.load(v.X)
		case token.ARROW:
			return &Shape{K: "un", S: "<-", A: []*Shape{sh.Of(v.X)}}
		default:
			return &Shape{K: "un", S: v.Op.String(), A: []*Shape{sh.Of(v.X)}}
		}
	case *ssa.BinOp:
		if ph, ok := v.X.(*ssa.Phi); ok && v.Op == token.ADD && ph.Block().Comment == "rangeindex.loop" && v.Block() == ph.Block() && isRangeIndexPhi(ph) {
			return atom("unk", "#i")
		}
		return &Shape{K: "bin", S: v.Op.String(), A: []*Shape{sh.Of(v.X), sh.Of(v.Y)}}
	case *ssa.Call:
		return sh.callShape(&v.Call)
	case *ssa.Extract:
		if n, ok := v.Tuple.(*ssa.Next); ok {
			if r, ok := n.Iter.(*ssa.Range); ok {
				switch v.Index {
				case 1:
					return &Shape{K: "rk", A: []*Shape{sh.Of(r.X)}}
				case 2:
					return &Shape{K: "rv", A: []*Shape{sh.Of(r.X)}}
				}
				return &Shape{K: "ext", S: "0", A: []*Shape{{K: "rk", A: []*Shape{sh.Of(r.X)}}}}
			}
		}
		if sel, ok := v.Tuple.(*ssa.Select); ok && v.Index >= 2 {
			k := v.Index - 2
			for _, st := range sel.States {
				if st.Dir == types.RecvOnly {
					if k == 0 {
						return &Shape{K: "un", S: "<-", A: []*Shape{sh.Of(st.Chan)}}
					}
					k--
				}
			}
		}
		return &Shape{K: "ext", S: strconv.Itoa(v.Index), A: []*Shape{sh.Of(v.Tuple)}}
	case *ssa.Phi:
		if c := v.Block().Comment; c == "rangeindex.loop" && isRangeIndexPhi(v) {
			return atom("unk", "#i")
		}
		var alts []*Shape
		for _, e := range v.Edges {
			alts = append(alts, sh.Of(e))
		}
		return mkPhi(alts)
	case *ssa.Convert:
		return sh.Of(v.X)
	case *ssa.ChangeType:
		return sh.Of(v.X)
	case *ssa.ChangeInterface:
		return sh.Of(v.X)
	case *ssa.MakeInterface:
		return sh.Of(v.X)
	case *ssa.SliceToArrayPointer:
		return sh.Of(v.X)
	case *ssa.MultiConvert:
		return sh.Of(v.X)
	case *ssa.TypeAssert:
		return &Shape{K: "assert", S: TypeName(v.AssertedType), A: []*Shape{sh.Of(v.X)}}
	case *ssa.Slice:
		if al, ok := v.X.(*ssa.Alloc); ok && al.Comment == "varargs" && al.Referrers() != nil {
			// the argument list of a variadic call: render its elements
			l := &Shape{K: "list"}
			elems := map[int]*Shape{}
			max := -1
			for _, ref := range *al.Referrers() {
				ia, ok := ref.(*ssa.IndexAddr)
				if !ok || ia.Referrers() == nil {
					continue
				}
				k, ok := ia.Index.(*ssa.Const)
				if !ok {
					continue
				}
				idx, ok := constInt(k)
				if !ok {
					continue
				}
				for _, r2 := range *ia.Referrers() {
					if st, ok := r2.(*ssa.Store); ok && st.Addr == ia {
						elems[idx] = sh.Of(st.Val)
						if idx > max {
							max = idx
						}
					}
				}
			}
			if max >= 0 && max < 64 {
				for i := 0; i <= max; i++ {
					if e, ok := elems[i]; ok {
						l.A = append(l.A, e)
					} else {
						l.A = append(l.A, atom("unk", "?"))
					}
				}
				return l
			}
		}
		return &Shape{K: "slice", A: []*Shape{sh.addrBase(v.X)}}
	case *ssa.MakeMap:
		return &Shape{K: "make", S: "map"}
	case *ssa.MakeSlice:
		return &Shape{K: "make", S: "slice"}
	case *ssa.MakeChan:
		return &Shape{K: "make", S: "chan", A: []*Shape{sh.Of(v.Size)}}
	case *ssa.MakeClosure:
		return &Shape{K: "closure", S: FuncName(v.Fn.(*ssa.Function))}
	case *ssa.Next:
		return &Shape{K: "un", S: "next", A: []*Shape{sh.Of(v.Iter)}}
	case *ssa.Range:
		return &Shape{K: "un", S: "range", A: []*Shape{sh.Of(v.X)}}
	case *ssa.Select:
		return atom("unk", "select")
	}
	return atom("unk", fmt.Sprintf("%T", v))
}

// reachingStore finds, for a load of a local variable, the unique store that
// reaches it along straight-line code (same block, then single-predecessor
// chain). It returns nil when it cannot tell.
func reachingStore(ld *ssa.UnOp) ssa.Value {
	a, ok := ld.X.(*ssa.Alloc)
	if !ok {
		return nil
	}
	// the variable's address must not be handed to anything that could write it
	if a.Referrers() != nil {
		for _, r := range *a.Referrers() {
			switch r := r.(type) {
			case *ssa.Store:
				if r.Addr != a {
					return nil
				}
			case *ssa.UnOp, *ssa.DebugRef:
			default:
				return nil
			}
		}
	}
	b := ld.Block()
	idx := -1
	for k, in := range b.Instrs {
		if in == ssa.Instruction(ld) {
			idx = k
		}
	}
	for hops := 0; hops < 8; hops++ {
		for k := idx - 1; k >= 0; k-- {
			if st, ok := b.Instrs[k].(*ssa.Store); ok && st.Addr == a {
				return st.Val
			}
		}
		if len(b.Preds) != 1 {
			return nil
		}
		b = b.Preds[0]
		idx = len(b.Instrs)
	}
	return nil
}

func allocName(a *ssa.Alloc) string {
	if a.Comment != "" {
		return a.Comment
	}
	return a.Name()
}

// addrBase renders the base of an address expression: a pointer-typed value x
// denotes the object *x; we render field paths over it without the deref.
func (sh *Shaper) addrBase(x ssa.Value) *Shape {
	switch x := x.(type) {
	case *ssa.Alloc:
		// local variable: the object itself
		return sh.allocObject(x)
	case *ssa.FieldAddr, *ssa.IndexAddr:
		return sh.Of(x)
	}
	// pointer value: p.f means (*p).f; render as p.f
	return sh.Of(x)
}

// allocObject renders the object stored in a local variable when it is
// determined by its stores, else a reference to the variable.
func (sh *Shaper) allocObject(a *ssa.Alloc) *Shape {
	ai := sh.allocInfo(a)
	if !ai.escapes && len(ai.fields) == 0 {
		if len(ai.whole) == 1 {
			return sh.Of(ai.whole[0])
		}
		if len(ai.whole) > 1 {
			var alts []*Shape
			for _, s := range ai.whole {
				alts = append(alts, sh.Of(s))
			}
			return mkPhi(alts)
		}
	}
	if !ai.escapes && len(ai.whole) == 0 && len(ai.fields) > 0 {
		return sh.litOf(a, ai)
	}
	if len(ai.whole) == 1 && len(ai.fields) == 0 {
		// escapes (e.g. passed by pointer) but assigned once: still useful
		return sh.Of(ai.whole[0])
	}
	if !ai.escapes && len(ai.whole) == 1 && len(ai.fields) > 0 {
		if base := sh.Of(ai.whole[0]); base.K == "lit" {
			// a literal later refined by field assignments: flow-insensitive merge
			l := &Shape{K: "lit", S: base.S, F: append([]string{}, base.F...), A: append([]*Shape{}, base.A...)}
			var idx []int
			for i := range ai.fields {
				idx = append(idx, i)
			}
			sort.Ints(idx)
			for _, i := range idx {
				name := fieldName(a.Type(), i)
				var alts []*Shape
				for _, s := range ai.fields[i] {
					alts = append(alts, sh.Of(s))
				}
				found := false
				for k, f := range l.F {
					if f == name {
						l.A[k] = mkPhi(append(alts, l.A[k]))
						found = true
					}
				}
				if !found {
					l.F = append(l.F, name)
					l.A = append(l.A, mkPhi(alts))
				}
			}
			return l
		}
	}
	return atom("ref", "&"+allocName(a))
}

func (sh *Shaper) litOf(a *ssa.Alloc, ai *allocInfo) *Shape {
	l := &Shape{K: "lit", S: TypeName(a.Type())}
	var idx []int
	for i := range ai.fields {
		idx = append(idx, i)
	}
	sort.Ints(idx)
	for _, i := range idx {
		var alts []*Shape
		for _, s := range ai.fields[i] {
			alts = append(alts, sh.Of(s))
		}
		l.F = append(l.F, fieldName(a.Type(), i))
		l.A = append(l.A, mkPhi(alts))
	}
	return l
}

// load renders *addr.
func (sh *Shaper) load(addr ssa.Value) *Shape {
	switch x := addr.(type) {
	case *ssa.Alloc:
		return sh.allocObject(x)
	case *ssa.FieldAddr:
		// field of a local struct assembled by field stores
		if a, ok := x.X.(*ssa.Alloc); ok {
			ai := sh.allocInfo(a)
			if !ai.escapes && len(ai.whole) == 1 && len(ai.fields) == 0 {
				// assigned once as a whole (e.g. a call's result): the field of that value
				return mkFld(sh.Of(ai.whole[0]), fieldName(a.Type(), x.Field))
			}
			if len(ai.whole) == 0 {
				if vals := ai.fields[x.Field]; len(vals) > 0 {
					var alts []*Shape
					for _, s := range vals {
						alts = append(alts, sh.Of(s))
					}
					return mkPhi(alts)
				}
			}
		}
		return sh.Of(x)
	case *ssa.IndexAddr:
		return sh.Of(x)
	case *ssa.Global:
		return sh.Of(x)
	case *ssa.FreeVar:
		return sh.Of(x)
	}
	return sh.Of(addr)
}

// ---------- pattern parsing ----------

type pparser struct {
	s string
	i int
}

// ParsePattern parses the textual shape syntax; $name is a pattern variable,
// $_ a wildcard.
func ParsePattern(s string) *Shape {
	p := &pparser{s: s}
	sh := p.expr()
	p.ws()
	if p.i != len(p.s) {
		panic(fmt.Sprintf("pattern %q: trailing input at %d", s, p.i))
	}
	return sh
}

func (p *pparser) ws() {
	for p.i < len(p.s) && (p.s[p.i] == ' ' || p.s[p.i] == '\n' || p.s[p.i] == '\t') {
		p.i++
	}
}

func isIdent(c byte) bool {
	return c == '_' || c == '/' || c == '^' || c == '&' || c == ':' || (c >= 'a' && c <= 'z') || (c >= 'A' && c <= 'Z') || (c >= '0' && c <= '9')
}

func (p *pparser) expr() *Shape {
	p.ws()
	var cur *Shape
	if p.i >= len(p.s) {
		panic("pattern: unexpected end: " + p.s)
	}
	c := p.s[p.i]
	switch {
	case c == '(':
		p.i++
		p.ws()
		// unary?
		if p.s[p.i] == '!' || (p.s[p.i] == '-' && p.s[p.i+1] != ' ') || strings.HasPrefix(p.s[p.i:], "<-") {
			op := string(p.s[p.i])
			if strings.HasPrefix(p.s[p.i:], "<-") {
				op = "<-"
			}
			p.i += len(op)
			x := p.expr()
			p.ws()
			p.expect(')')
			cur = &Shape{K: "un", S: op, A: []*Shape{x}}
		} else {
			l := p.expr()
			p.ws()
			j := p.i
			for p.i < len(p.s) && p.s[p.i] != ' ' {
				p.i++
			}
			op := p.s[j:p.i]
			r := p.expr()
			p.ws()
			p.expect(')')
			cur = &Shape{K: "bin", S: op, A: []*Shape{l, r}}
		}
	case c == '"':
		j := p.i
		p.i++
		for p.i < len(p.s) && p.s[p.i] != '"' {
			if p.s[p.i] == '\\' {
				p.i++
			}
			p.i++
		}
		p.i++
		cur = atom("const", p.s[j:p.i])
	case c == '@':
		kind := "call"
		p.i++
		if p.s[p.i] == '@' {
			kind = "invoke"
			p.i++
		}
		if p.s[p.i] == '?' {
			kind = "dyn"
			p.i++
		}
		j := p.i
		for p.i < len(p.s) && p.s[p.i] != '(' {
			p.i++
		}
		name := p.s[j:p.i]
		cur = &Shape{K: kind, S: name, A: p.args()}
	case c == '%':
		j := p.i
		p.i++
		for p.i < len(p.s) && (isIdent(p.s[p.i]) || p.s[p.i] == '.' || p.s[p.i] == '$') {
			p.i++
		}
		cur = atom("ref", p.s[j:p.i])
	case c == '#':
		j := p.i
		p.i++
		for p.i < len(p.s) && isIdent(p.s[p.i]) {
			p.i++
		}
		cur = atom("unk", p.s[j:p.i])
	case strings.HasPrefix(p.s[p.i:], "lit:"):
		p.i += 4
		j := p.i
		for p.i < len(p.s) && p.s[p.i] != '{' {
			p.i++
		}
		l := &Shape{K: "lit", S: p.s[j:p.i]}
		p.expect('{')
		for {
			p.ws()
			if p.s[p.i] == '}' {
				p.i++
				break
			}
			if strings.HasPrefix(p.s[p.i:], "$...") {
				p.i += 4
				l.F = append(l.F, "$...")
				l.A = append(l.A, atom("var", "$_"))
			} else {
				j := p.i
				for p.i < len(p.s) && p.s[p.i] != ':' {
					p.i++
				}
				name := p.s[j:p.i]
				p.expect(':')
				l.F = append(l.F, name)
				l.A = append(l.A, p.expr())
			}
			p.ws()
			if p.s[p.i] == ',' {
				p.i++
			}
		}
		cur = l
	case strings.HasPrefix(p.s[p.i:], "$..."):
		p.i += 4
		return atom("var", "$...")
	case c == '$':
		j := p.i
		p.i++
		for p.i < len(p.s) && isIdent(p.s[p.i]) {
			p.i++
		}
		cur = atom("var", p.s[j:p.i])
	case c == '*':
		p.i++
		x := p.expr()
		return &Shape{K: "load", A: []*Shape{x}}
	default:
		j := p.i
		for p.i < len(p.s) && isIdent(p.s[p.i]) {
			p.i++
		}
		if j == p.i {
			panic(fmt.Sprintf("pattern %q: unexpected %q at %d", p.s, c, p.i))
		}
		word := p.s[j:p.i]
		switch {
		case word == "rk" || word == "rv":
			if p.i < len(p.s) && p.s[p.i] == '(' {
				a := p.args()
				cur = &Shape{K: word, A: a}
			} else {
				cur = atom("param", word)
			}
		case word == "phi":
			cur = &Shape{K: "phi", A: p.argsSep('|')}
		case strings.HasPrefix(word, "make:") && p.i < len(p.s) && p.s[p.i] == '(':
			cur = &Shape{K: "make", S: strings.TrimPrefix(word, "make:"), A: p.args()}
		case word == "true" || word == "false" || word == "nil" || (word[0] >= '0' && word[0] <= '9'):
			cur = atom("const", word)
		case strings.HasPrefix(word, "^"):
			cur = atom("free", word)
		case strings.HasPrefix(word, "&"):
			cur = atom("ref", word)
		default:
			cur = atom("param", word)
		}
	}
	// postfix
	for p.i < len(p.s) {
		switch p.s[p.i] {
		case '.':
			if p.i+1 < len(p.s) && p.s[p.i+1] == '(' {
				p.i += 2
				j := p.i
				for p.s[p.i] != ')' {
					p.i++
				}
				cur = &Shape{K: "assert", S: p.s[j:p.i], A: []*Shape{cur}}
				p.i++
				continue
			}
			p.i++
			j := p.i
			for p.i < len(p.s) && (isIdent(p.s[p.i]) || p.s[p.i] == '$') {
				p.i++
			}
			cur = &Shape{K: "fld", S: p.s[j:p.i], A: []*Shape{cur}}
		case '[':
			if strings.HasPrefix(p.s[p.i:], "[:]") {
				p.i += 3
				cur = &Shape{K: "slice", A: []*Shape{cur}}
				continue
			}
			p.i++
			x := p.expr()
			p.ws()
			p.expect(']')
			cur = &Shape{K: "idx", A: []*Shape{cur, x}}
		case '#':
			p.i++
			j := p.i
			for p.i < len(p.s) && p.s[p.i] >= '0' && p.s[p.i] <= '9' {
				p.i++
			}
			cur = &Shape{K: "ext", S: p.s[j:p.i], A: []*Shape{cur}}
		default:
			return cur
		}
	}
	return cur
}

func (p *pparser) expect(c byte) {
	if p.i >= len(p.s) || p.s[p.i] != c {
		panic(fmt.Sprintf("pattern %q: expected %q at %d", p.s, c, p.i))
	}
	p.i++
}

func (p *pparser) args() []*Shape { return p.argsSep(',') }

func (p *pparser) argsSep(sep byte) []*Shape {
	p.expect('(')
	var out []*Shape
	p.ws()
	if p.s[p.i] == ')' {
		p.i++
		return out
	}
	for {
		out = append(out, p.expr())
		p.ws()
		if p.s[p.i] == sep {
			p.i++
			continue
		}
		p.expect(')')
		return out
	}
}

// Bindings of pattern variables.
type Bind map[string]*Shape

// Unify matches pattern pat against shape s, extending b. Pattern variables
// bind whole sub-shapes and must bind consistently. A "$..." argument in a
// call matches any remaining arguments.
func Unify(pat, s *Shape, b Bind) bool {
	if pat.K == "var" {
		if pat.S == "$_" {
			return true
		}
		if old, ok := b[pat.S]; ok {
			return old.String() == s.String()
		}
		b[pat.S] = s
		return true
	}
	if isAtomKind(pat.K) && isAtomKind(s.K) {
		return pat.S == s.S
	}
	if pat.K == "lit" && s.K == "lit" {
		if pat.S != s.S && pat.S != "$_" {
			return false
		}
		open := false
		n := 0
		for i, f := range pat.F {
			if f == "$..." {
				open = true
				continue
			}
			n++
			found := false
			for k, sf := range s.F {
				if sf == f {
					found = true
					if !Unify(pat.A[i], s.A[k], b) {
						return false
					}
				}
			}
			if !found {
				return false
			}
		}
		return open || n == len(s.F)
	}
	if pat.K != s.K {
		// a pattern matches a phi if it matches every alternative the same way
		if s.K == "phi" && pat.K != "phi" {
			for _, alt := range s.A {
				if !Unify(pat, alt, b) {
					return false
				}
			}
			return true
		}
		return false
	}
	if pat.S != s.S {
		if pat.K == "fld" && strings.HasPrefix(pat.S, "$") {
			if old, ok := b[pat.S]; ok {
				if old.S != s.S {
					return false
				}
			} else {
				b[pat.S] = atom("const", s.S)
			}
		} else {
			return false
		}
	}
	// variadic tail
	if n := len(pat.A); n > 0 && pat.A[n-1].K == "var" && pat.A[n-1].S == "$..." {
		if len(s.A) < n-1 {
			return false
		}
		for i := 0; i < n-1; i++ {
			if !Unify(pat.A[i], s.A[i], b) {
				return false
			}
		}
		return true
	}
	if len(pat.A) != len(s.A) {
		return false
	}
	for i := range pat.A {
		if !Unify(pat.A[i], s.A[i], b) {
			return false
		}
	}
	return true
}

func isAtomKind(k string) bool {
	return k == "const" || k == "param" || k == "free" || k == "ref" || k == "unk"
}

// Match reports whether s matches the textual pattern.
func Match(pattern string, s *Shape) (Bind, bool) {
	b := Bind{}
	ok := Unify(ParsePattern(pattern), s, b)
	return b, ok
}

// Contains reports whether some sub-shape of s matches pat (derives()).
func Contains(pat *Shape, s *Shape) bool {
	if Unify(pat, s, Bind{}) {
		return true
	}
	for _, a := range s.A {
		if Contains(pat, a) {
			return true
		}
	}
	return false
}

func ContainsP(pattern string, s *Shape) bool { return Contains(ParsePattern(pattern), s) }

// Walk visits all sub-shapes.
func (s *Shape) Walk(f func(*Shape)) {
	f(s)
	for _, a := range s.A {
		a.Walk(f)
	}
}

// ---------- predicates (normalised comparisons) ----------

// Pred is a normalised boolean atom: Neg XOR (L op R) with op in {"<","=="},
// or, for op "", the boolean value L itself.
type Pred struct {
	Neg  bool
	Op   string
	L, R *Shape
}

func (p Pred) String() string {
	n := ""
	if p.Neg {
		n = "!"
	}
	if p.Op == "" {
		return n + p.L.String()
	}
	return n + "(" + p.L.String() + " " + p.Op + " " + p.R.String() + ")"
}

// NormPred normalises a boolean shape.
func NormPred(s *Shape) Pred {
	neg := false
	for s.K == "un" && s.S == "!" {
		neg = !neg
		s = s.A[0]
	}
	if s.K == "bin" {
		l, r := s.A[0], s.A[1]
		switch s.S {
		case "<":
			return Pred{neg, "<", l, r}
		case ">":
			return Pred{neg, "<", r, l}
		case ">=":
			return Pred{!neg, "<", l, r}
		case "<=":
			return Pred{!neg, "<", r, l}
		case "==", "!=":
			if s.S == "!=" {
				neg = !neg
			}
			// order operands: pattern variables / non-constants first is not
			// decidable in general, so try both orders when matching.
			return Pred{neg, "==", l, r}
		}
	}
	return Pred{neg, "", s, nil}
}

// MatchPred matches a normalised pattern predicate against a normalised
// condition; it returns the bindings and whether the condition being TRUE
// means the pattern predicate is TRUE (same==true) or FALSE (same==false).
func MatchPred(pat, cond Pred, b Bind) (same bool, ok bool) {
	if pat.Op != cond.Op {
		return false, false
	}
	try := func(pl, pr, cl, cr *Shape) bool {
		bb := Bind{}
		for k, v := range b {
			bb[k] = v
		}
		if !Unify(pl, cl, bb) {
			return false
		}
		if pr != nil && !Unify(pr, cr, bb) {
			return false
		}
		for k, v := range bb {
			b[k] = v
		}
		return true
	}
	if try(pat.L, pat.R, cond.L, cond.R) || (pat.Op == "==" && try(pat.L, pat.R, cond.R, cond.L)) {
		return pat.Neg == cond.Neg, true
	}
	return false, false
}
