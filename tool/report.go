package main

import (
	"encoding/json"
	"fmt"
	"os"
	"path/filepath"
	"regexp"
	"sort"
	"strings"
	"time"
)

func verifDir() string {
	if d := os.Getenv("GVERIF_HOME"); d != "" {
		return d
	}
	return "/verif"
}

type Status int

const (
	StPass Status = iota
	StFail
	StUndecided
)

// Obligation is one rule instance (DESIGN.md §3.1), keyed by rule + construct.
type Obligation struct {
	Rule      string `json:"rule"`
	Construct string `json:"construct"`
	Pos       string `json:"pos,omitempty"`
	Detail    string `json:"detail,omitempty"`
	Status    Status `json:"-"`
	St        string `json:"status"`
	Config    string `json:"config,omitempty"`
}

func (o *Obligation) Key() string { return o.Rule + "/" + o.Construct }

// Run collects the obligations of one property check.
type Run struct {
	Prop     string
	Tier     string
	W        *World
	Obls     []*Obligation
	expects  []expect
	notes    []string
	rules    map[string]string // rule id -> description
	config   string
	selftest map[string]any
}

type expect struct {
	rule string
	n    int
	what string
}

func (r *Run) Rule(id, desc string) {
	if r.rules == nil {
		r.rules = map[string]string{}
	}
	r.rules[id] = desc
}

func (r *Run) add(rule, construct, pos string, st Status, detail string) *Obligation {
	o := &Obligation{Rule: rule, Construct: construct, Pos: pos, Detail: detail, Status: st, Config: r.config}
	switch st {
	case StPass:
		o.St = "discharged"
	case StFail:
		o.St = "FAILED"
	default:
		o.St = "UNDECIDED"
	}
	r.Obls = append(r.Obls, o)
	return o
}

func (r *Run) Pass(rule, construct, pos, detail string) { r.add(rule, construct, pos, StPass, detail) }
func (r *Run) Fail(rule, construct, pos, detail string) { r.add(rule, construct, pos, StFail, detail) }
func (r *Run) Undecided(rule, construct, pos, detail string) {
	r.add(rule, construct, pos, StUndecided, detail)
}

// Check records pass/fail.
func (r *Run) Check(ok bool, rule, construct, pos, detail string) bool {
	if ok {
		r.Pass(rule, construct, pos, detail)
	} else {
		r.Fail(rule, construct, pos, detail)
	}
	return ok
}

// Expect demands at least n obligations (of any status) under rule; fewer
// means the rule lost its anchors: reported as a violation of the rule, since
// the construct the property relies on is gone.
func (r *Run) Expect(rule string, n int, what string) {
	r.expects = append(r.expects, expect{rule, n, what})
}

func (r *Run) Note(format string, a ...any) { r.notes = append(r.notes, fmt.Sprintf(format, a...)) }

// ---------- known findings ----------

type Finding struct {
	Property string `json:"property"`
	Key      string `json:"key"`
	What     string `json:"what"`
	Demo     string `json:"demonstration,omitempty"`
	Defect   string `json:"defect,omitempty"`
}

type KnownFile struct {
	Comment  string    `json:"comment"`
	Findings []Finding `json:"findings"`
	Fixed    []string  `json:"fixed"`
}

func loadKnown() (*KnownFile, error) {
	b, err := os.ReadFile(filepath.Join(verifDir(), "known_findings.json"))
	if err != nil {
		if os.IsNotExist(err) {
			return &KnownFile{}, nil
		}
		return nil, err
	}
	var k KnownFile
	if err := json.Unmarshal(b, &k); err != nil {
		return nil, fmt.Errorf("known_findings.json: %w", err)
	}
	return &k, nil
}

var unsafeName = regexp.MustCompile(`[^A-Za-z0-9_.-]+`)

// Finish prints the report, writes evidence, and returns the exit code.
func (r *Run) Finish(t0 time.Time, seed int, meta PropMeta, configs []string) int {
	known, err := loadKnown()
	if err != nil {
		fmt.Println("UNDECIDED: cannot read known findings:", err)
		return 2
	}
	// instance-count expectations
	perRule := map[string]int{}
	for _, o := range r.Obls {
		perRule[o.Rule]++
	}
	for _, e := range r.expects {
		// when several configurations ran, each contributes
		need := e.n
		if perRule[e.rule] < need {
			r.add(e.rule, "instances", "", StFail, fmt.Sprintf("rule matched %d construct(s), needs at least %d: %s — the mechanism this rule anchors on is missing", perRule[e.rule], need, e.what))
		}
	}

	sort.SliceStable(r.Obls, func(i, j int) bool {
		if r.Obls[i].Rule != r.Obls[j].Rule {
			return r.Obls[i].Rule < r.Obls[j].Rule
		}
		return r.Obls[i].Construct < r.Obls[j].Construct
	})

	filter := os.Getenv("GVERIF_ONLY_KEY")
	var viol, und, knownHits, discharged int
	seenKnown := map[string]bool{}
	seenViol := map[string]bool{}
	fmt.Printf("== %s (%s) tier=%s configs=%v\n", r.Prop, meta.Title, r.Tier, configs)
	var ruleIDs []string
	for id := range r.rules {
		ruleIDs = append(ruleIDs, id)
	}
	sort.Strings(ruleIDs)
	for _, id := range ruleIDs {
		fmt.Printf("rule %s: %s\n", id, r.rules[id])
	}
	vdir := filepath.Join(verifDir(), "evidence", "violations")
	for _, o := range r.Obls {
		if filter != "" && o.Key() != filter {
			continue
		}
		switch o.Status {
		case StPass:
			discharged++
			if os.Getenv("GVERIF_VERBOSE") != "" || filter != "" {
				fmt.Printf("  ok   %-8s %s  [%s] %s\n", o.Rule, o.Construct, o.Pos, o.Detail)
			}
		case StUndecided:
			und++
			fmt.Printf("  UNDECIDED %s %s [%s]: %s\n", o.Rule, o.Construct, o.Pos, o.Detail)
		case StFail:
			var kf *Finding
			for i := range known.Findings {
				f := &known.Findings[i]
				if f.Property == r.Prop && f.Key == o.Key() {
					kf = f
				}
			}
			if kf != nil {
				if !seenKnown[o.Key()] {
					seenKnown[o.Key()] = true
					knownHits++
					fmt.Printf("KNOWN-FINDING: property=%s %s [%s at %s] %s\n", r.Prop, kf.What, o.Key(), o.Pos, oneLine(o.Detail))
				}
				continue
			}
			if seenViol[o.Key()] {
				continue
			}
			seenViol[o.Key()] = true
			viol++
			_ = os.MkdirAll(vdir, 0o755)
			path := filepath.Join(vdir, r.Prop+"-"+unsafeName.ReplaceAllString(o.Key(), "_")+".json")
			jb, _ := json.MarshalIndent(map[string]any{
				"property": r.Prop, "key": o.Key(), "rule": o.Rule, "construct": o.Construct,
				"pos": o.Pos, "detail": o.Detail, "config": o.Config, "rule_text": r.rules[o.Rule],
			}, "", " ")
			_ = os.WriteFile(path, jb, 0o644)
			fmt.Printf("  FAIL %s %s [%s]\n       %s\n", o.Rule, o.Construct, o.Pos, o.Detail)
			fmt.Printf("VIOLATION property=%s replay=%s\n", r.Prop, path)
		}
	}
	for _, n := range r.notes {
		fmt.Println("note:", n)
	}

	// evidence
	total := 0
	distinct := map[string]bool{}
	var samples []any
	perRuleSample := map[string]int{}
	for _, o := range r.Obls {
		total++
		distinct[o.Key()] = true
		if perRuleSample[o.Rule] < 3 {
			perRuleSample[o.Rule]++
			samples = append(samples, map[string]string{"rule": o.Rule, "construct": o.Construct, "pos": o.Pos, "status": o.St, "detail": truncate(o.Detail, 300)})
		}
	}
	ruleTable := map[string]any{}
	for _, id := range ruleIDs {
		ruleTable[id] = map[string]any{"text": r.rules[id], "instances": perRule[id]}
	}
	cov := map[string]any{
		"explanation":         meta.Explanation,
		"obligations":         total,
		"discharged":          discharged,
		"evaluations":         total,
		"distinct_nontrivial": len(distinct),
		"rule":                "one obligation per (rule, construct) instance found in the type-checked SSA of /repo's working tree; an obligation is non-trivial when it matched a real construct (function, call site, field, branch) — obligations are keyed by rule+construct and de-duplicated",
		"samples":             samples,
		"rules":               ruleTable,
		"configurations":      configs,
		"known_findings":      knownHits,
		"undecided":           und,
		"not_decided":         meta.NotDecided,
		"packages_analysed":   len(r.W.Pkgs),
		"functions_analysed":  len(r.W.AllFuncs),
		"exhaustive":          false,
	}
	if r.selftest != nil {
		cov["checker_selftest"] = r.selftest
	}
	level := "other"
	if meta.Level != "" {
		level = meta.Level
	}
	if level == "proof" {
		cov["checker_cmd"] = "cd /verif && ./check " + r.Prop + " " + r.Tier
		cov["trusted_base"] = meta.Trusted
	}
	ev := map[string]any{
		"property_id": r.Prop,
		"tier":        r.Tier,
		"seed":        seed,
		"level":       level,
		"coverage":    cov,
		"assumptions": meta.Assumptions,
		"wall_s":      time.Since(t0).Seconds(),
		"violations":  viol,
	}
	eb, _ := json.MarshalIndent(ev, "", " ")
	if filter == "" {
		_ = os.MkdirAll(filepath.Join(verifDir(), "evidence"), 0o755)
		if err := os.WriteFile(filepath.Join(verifDir(), "evidence", r.Prop+".json"), eb, 0o644); err != nil {
			fmt.Println("UNDECIDED: cannot write evidence:", err)
			return 2
		}
	}
	fmt.Printf("summary %s: obligations=%d discharged=%d known-findings=%d violations=%d undecided=%d wall=%.1fs\n",
		r.Prop, total, discharged, knownHits, viol, und, time.Since(t0).Seconds())
	if viol > 0 {
		return 1
	}
	if und > 0 {
		return 2
	}
	return 0
}

// newFailures: keys of failed / undecided obligations (including unmet instance
// expectations) that are not listed known findings. Used by the self-test and the matrix.
func (r *Run) newFailures() []string {
	known, err := loadKnown()
	if err != nil {
		return []string{"known-findings/unreadable"}
	}
	perRule := map[string]int{}
	for _, o := range r.Obls {
		perRule[o.Rule]++
	}
	seen := map[string]bool{}
	var out []string
	for _, e := range r.expects {
		if perRule[e.rule] < e.n {
			out = append(out, e.rule+"/instances")
		}
	}
	for _, o := range r.Obls {
		if o.Status == StPass || seen[o.Key()] {
			continue
		}
		isKnown := false
		for _, f := range known.Findings {
			if f.Property == r.Prop && f.Key == o.Key() {
				isKnown = true
			}
		}
		if !isKnown {
			seen[o.Key()] = true
			out = append(out, o.Key())
		}
	}
	sort.Strings(out)
	return out
}

func oneLine(s string) string {
	s = strings.ReplaceAll(s, "\n", " ")
	return truncate(s, 240)
}

func truncate(s string, n int) string {
	if len(s) > n {
		return s[:n] + "…"
	}
	return s
}

// PropMeta is the static description of a property check.
type PropMeta struct {
	ID          string
	Title       string
	Level       string
	Explanation string
	NotDecided  string
	Assumptions []string
	Trusted     []string
	Run         func(r *Run)
}

// Borrow runs another property's rules on the same tree and records the obligations of one of its
// rules under a rule id of this property: a clause that two properties share is decided once and
// reported under both (DESIGN.md §4: "C08.8 = C02.4", "C01.10 = C07.1").
func (r *Run) Borrow(from func(*Run), fromProp, fromRule, asRule, text string) {
	tmp := &Run{Prop: fromProp, Tier: r.Tier, W: r.W, config: r.config}
	from(tmp)
	r.Rule(asRule, text+" (shared with "+fromRule+")")
	n := 0
	for _, o := range tmp.Obls {
		if o.Rule != fromRule {
			continue
		}
		n++
		r.add(asRule, o.Construct, o.Pos, o.Status, o.Detail)
	}
	if n == 0 {
		r.Fail(asRule, "instances", "", "the shared rule "+fromRule+" produced no obligations")
	}
}
