package main

import (
	"fmt"
	"go/token"
	"go/types"
	"sort"

	"golang.org/x/tools/go/ssa"
)

// Lockset analysis (LOCK primitive) for types that guard their fields with a
// sync.Mutex / sync.RWMutex field of the receiver.

type lockLevel int

const (
	lkNone lockLevel = iota
	lkRead
	lkWrite
	lkTop lockLevel = 9 // not yet computed
)

type lockFinding struct {
	Instr ssa.Instruction
	Msg   string
}

type lockReport struct {
	Acquisitions int
	Accesses     int
	Writes       int
	Findings     []lockFinding
	GuardedUsed  map[string]bool
	// lock level held at each call that passes the receiver on to another function of the package
	SelfCalls map[*ssa.Call]lockLevel
}

// mutexFieldIndex returns the index of the mutex field of a struct type, or -1.
func mutexField(st *types.Struct) (idx int, rw bool) {
	for i := 0; i < st.NumFields(); i++ {
		tn := TypeName(st.Field(i).Type())
		if tn == "sync.Mutex" {
			return i, false
		}
		if tn == "sync.RWMutex" {
			return i, true
		}
	}
	return -1, false
}

// analyseLocks runs the lockset dataflow on one method whose receiver is a
// pointer to a struct with mutex field mu; immutable lists field names that are
// only assigned in constructors.
func analyseLocks(fn *ssa.Function, mu int, immutable map[string]bool) *lockReport {
	return analyseLocksFrom(fn, mu, immutable, lkNone)
}

// analyseLocksFrom is analyseLocks for a helper that is entered with the
// receiver's lock already held at level entry by every caller.
func analyseLocksFrom(fn *ssa.Function, mu int, immutable map[string]bool, entry lockLevel) *lockReport {
	rep := &lockReport{GuardedUsed: map[string]bool{}, SelfCalls: map[*ssa.Call]lockLevel{}}
	if len(fn.Params) == 0 || len(fn.Blocks) == 0 {
		return rep
	}
	recv := fn.Params[0]
	isMuAddr := func(v ssa.Value) bool {
		fa, ok := v.(*ssa.FieldAddr)
		return ok && fa.X == recv && fa.Field == mu
	}
	// effect of a call on the lock level
	lockEffect := func(in ssa.Instruction) (lockLevel, bool) {
		c, ok := in.(*ssa.Call)
		if !ok {
			return 0, false
		}
		f := c.Call.StaticCallee()
		if f == nil || len(c.Call.Args) == 0 || !isMuAddr(c.Call.Args[0]) {
			return 0, false
		}
		switch f.Name() {
		case "Lock":
			return lkWrite, true
		case "RLock":
			return lkRead, true
		case "Unlock", "RUnlock":
			return lkNone, true
		}
		return 0, false
	}
	// taint: values derived from guarded fields
	taint := map[ssa.Value]string{}
	guardedFieldAddr := func(v ssa.Value) (string, bool) {
		fa, ok := v.(*ssa.FieldAddr)
		if !ok || fa.X != recv || fa.Field == mu {
			return "", false
		}
		name := fieldName(recv.Type(), fa.Field)
		if immutable[name] {
			return "", false
		}
		return name, true
	}
	changed := true
	for changed {
		changed = false
		for _, b := range fn.Blocks {
			for _, in := range b.Instrs {
				v, ok := in.(ssa.Value)
				if !ok {
					continue
				}
				if _, done := taint[v]; done {
					continue
				}
				src := ""
				switch x := in.(type) {
				case *ssa.FieldAddr:
					if n, ok := guardedFieldAddr(x); ok {
						src = n
					} else if t, ok := taint[x.X]; ok {
						src = t
					}
				case *ssa.UnOp:
					if x.Op == token.MUL {
						if t, ok := taint[x.X]; ok {
							src = t
						}
					}
				case *ssa.Lookup:
					if t, ok := taint[x.X]; ok && isRefType(x.Type()) {
						src = t
					}
				case *ssa.Extract:
					if t, ok := taint[x.Tuple]; ok && isRefType(x.Type()) {
						src = t
					}
				case *ssa.Phi:
					for _, e := range x.Edges {
						if t, ok := taint[e]; ok {
							src = t
						}
					}
				case *ssa.IndexAddr:
					if t, ok := taint[x.X]; ok {
						src = t
					}
				case *ssa.Index:
					if t, ok := taint[x.X]; ok && isRefType(x.Type()) {
						src = t
					}
				case *ssa.Slice:
					if t, ok := taint[x.X]; ok {
						src = t
					}
				case *ssa.Range:
					if t, ok := taint[x.X]; ok {
						src = t
					}
				case *ssa.Next:
					if t, ok := taint[x.Iter]; ok {
						src = t
					}
				}
				if src != "" {
					taint[v] = src
					changed = true
				}
			}
		}
	}
	// Lookup results that are not reference-typed are not tainted, but the
	// lookup itself is an access; handled below.

	// dataflow: must-hold level at block entry = minimum over predecessors
	in := map[*ssa.BasicBlock]lockLevel{}
	out := map[*ssa.BasicBlock]lockLevel{}
	for _, b := range fn.Blocks {
		in[b] = lkTop
		out[b] = lkTop
	}
	transfer := func(b *ssa.BasicBlock, l lockLevel) lockLevel {
		if l == lkTop {
			return lkTop
		}
		for _, i := range b.Instrs {
			if e, ok := lockEffect(i); ok {
				l = e
			}
		}
		return l
	}
	for iter := 0; iter < 1000; iter++ {
		ch := false
		for _, b := range fn.Blocks {
			var l lockLevel = lkTop
			if b == fn.Blocks[0] {
				l = entry
			} else {
				for _, p := range b.Preds {
					if out[p] < l {
						l = out[p]
					}
				}
			}
			o := transfer(b, l)
			if l != in[b] || o != out[b] {
				in[b], out[b] = l, o
				ch = true
			}
		}
		if !ch {
			break
		}
	}
	// check accesses
	for _, b := range fn.Blocks {
		l := in[b]
		if l == lkTop {
			continue // unreachable
		}
		for _, i := range b.Instrs {
			if e, ok := lockEffect(i); ok {
				if e != lkNone {
					rep.Acquisitions++
					if l != lkNone {
						rep.Findings = append(rep.Findings, lockFinding{i, "lock acquired while already held"})
					}
				}
				l = e
				continue
			}
			need := lkNone
			field := ""
			if c, ok := i.(*ssa.Call); ok && c.Call.StaticCallee() != nil && len(c.Call.Args) > 0 && c.Call.Args[0] == ssa.Value(recv) {
				rep.SelfCalls[c] = l
			}
			switch x := i.(type) {
			case *ssa.Store:
				if n, ok := guardedFieldAddr(x.Addr); ok {
					need, field = lkWrite, n
				} else if t, ok := taint[x.Addr]; ok {
					need, field = lkWrite, t
				}
			case *ssa.MapUpdate:
				if t, ok := taint[x.Map]; ok {
					need, field = lkWrite, t
				}
			case *ssa.UnOp:
				if x.Op == token.MUL {
					if n, ok := guardedFieldAddr(x.X); ok {
						need, field = lkRead, n
					} else if t, ok := taint[x.X]; ok {
						need, field = lkRead, t
					}
				}
			case *ssa.Lookup:
				if t, ok := taint[x.X]; ok {
					need, field = lkRead, t
				}
			case *ssa.Index:
				if t, ok := taint[x.X]; ok {
					need, field = lkRead, t
				}
			case *ssa.Next:
				if t, ok := taint[x.Iter]; ok {
					need, field = lkRead, t
				}
			case *ssa.Range:
				if t, ok := taint[x.X]; ok {
					need, field = lkRead, t
				}
			case *ssa.Call:
				// builtins operating on guarded references: len, cap, append, delete, clear, copy
				if bi, ok := x.Call.Value.(*ssa.Builtin); ok {
					for k, a := range x.Call.Args {
						if t, ok := taint[a]; ok {
							field = t
							need = lkRead
							if bi.Name() == "delete" || bi.Name() == "clear" || (bi.Name() == "copy" && k == 0) {
								need = lkWrite
							}
						}
					}
				}
			}
			if need == lkNone {
				continue
			}
			rep.Accesses++
			rep.GuardedUsed[field] = true
			if need == lkWrite {
				rep.Writes++
			}
			if l < need {
				what := "read of"
				if need == lkWrite {
					what = "write to"
				}
				held := map[lockLevel]string{lkNone: "no lock", lkRead: "only the read lock", lkWrite: "the write lock"}[l]
				rep.Findings = append(rep.Findings, lockFinding{i, fmt.Sprintf("%s guarded field %q with %s held", what, field, held)})
			}
		}
	}
	return rep
}

func isRefType(t types.Type) bool {
	switch t.Underlying().(type) {
	case *types.Map, *types.Slice, *types.Pointer, *types.Chan:
		return true
	case *types.Tuple:
		return true
	}
	return false
}

// lockedTypes finds struct types in a package that contain a mutex field.
func lockedTypes(w *World, pkgSuffix string) []*types.Named {
	var out []*types.Named
	for _, p := range w.Pkgs {
		if !hasSuffixPath(p.PkgPath, pkgSuffix) {
			continue
		}
		sc := p.Types.Scope()
		names := sc.Names()
		sort.Strings(names)
		for _, n := range names {
			tn, ok := sc.Lookup(n).(*types.TypeName)
			if !ok {
				continue
			}
			named, ok := tn.Type().(*types.Named)
			if !ok {
				continue
			}
			st, ok := named.Underlying().(*types.Struct)
			if !ok {
				continue
			}
			if i, _ := mutexField(st); i >= 0 {
				out = append(out, named)
			}
		}
	}
	return out
}

func hasSuffixPath(path, suffix string) bool {
	return path == suffix || len(path) > len(suffix) && path[len(path)-len(suffix)-1] == '/' && path[len(path)-len(suffix):] == suffix
}
