package main

import (
	"fmt"
	"go/token"
	"strings"

	"golang.org/x/tools/go/ssa"
)

func init() {
	register(&PropMeta{
		ID: "C02", Title: "The local validator never signs two proposals or votes in one round",
		Explanation: "Decides the single-writer, save-before-send and latch structure that makes a second signature in a (height, round) impossible within one process lifetime: the Signer's three signing methods are invoked from exactly three functions; in each, on every CFG path, sign -> ActionStore.Save*Action(same signature, target {rlc.H, rlc.R, chosen hash}) -> send on the outgoing-actions channel, the send only on the save's err==nil edge and carrying that same signature; those three functions are called only from the select cases of the event loop that receive from the per-round channel, and every continuing path of such a case stores nil to that channel field; the per-round channels become non-nil only in RoundLifecycle.Reset, which is called only with (H+1,0), (H,R+1) or the start-up position; values of the action type are sent only from these functions or from the start-up re-send of an action loaded from the action store. The store-side refusal (DoubleActionError / PubKeyChangedError) is C16.2.",
		NotDecided:  "behaviour across restarts beyond the action store's refusal (C16) and the start-up proposal suppression; a misbehaving custom Signer or ActionStore; D24 (a restart in mid-round stops the state machine on DoubleActionError) is a liveness matter for C09",
		Assumptions: []string{"the state machine kernel is a single goroutine (confinement checked: RoundLifecycle pointers are not handed to go statements)"},
		Run:         runC02,
	})
}

type signSpec struct {
	method  string // Signer method
	save    string // ActionStore method
	latch   string // RoundLifecycle channel field
	actFld  string // field of StateMachineRoundAction
	isVote  bool
	sigPath string
}

func runC02(r *Run) {
	w := r.W
	prod := w.ProdFuncs()
	r.Rule("C02.1", "WMC: each of Signer.Prevote / Precommit / SignProposedHeader is invoked from exactly one production function")
	r.Rule("C02.2", "DOM/GRD: sign -> ActionStore.Save*Action with the same signature and target {rlc.H, rlc.R, hash} -> send on OutgoingActionsCh only on the save's nil-error edge, carrying the same signature")
	r.Rule("C02.3", "WMC: StateMachineRoundAction values are sent only by the three recording functions and the start-up re-send of a loaded action")
	r.Rule("C02.4", "latch: the select case that receives from a per-round channel and records an action stores nil to that channel field on every continuing path; the channels become non-nil only in RoundLifecycle.Reset")
	r.Rule("C02.5", "WMC: the recording functions are called only from the event loop's cases")
	r.Rule("C02.6", "RoundLifecycle.Reset is called only with (H+1, 0), (H, R+1) or the start-up position, so a (height, round) is entered at most once")
	r.Rule("C02.10", "start-up suppression of a second proposal: once our own proposed header is found in the mirror's view or in the action store, the strategy is entered only with a nil proposal channel")
	r.Rule("C02.7", "CONF: a *RoundLifecycle is never passed to a go statement or sent on a channel (single owner goroutine)")

	specs := []signSpec{
		{method: "tmconsensus.Signer.Prevote", save: "tmstore.ActionStore.SavePrevoteAction", latch: "PrevoteHashCh", actFld: "Prevote", isVote: true},
		{method: "tmconsensus.Signer.Precommit", save: "tmstore.ActionStore.SavePrecommitAction", latch: "PrecommitHashCh", actFld: "Precommit", isVote: true},
		{method: "tmconsensus.Signer.SignProposedHeader", save: "tmstore.ActionStore.SaveProposedHeaderAction", latch: "ProposalCh", actFld: "PH"},
	}
	recorders := map[string]signSpec{}
	for _, sp := range specs {
		cs := w.CallersOf(prod, sp.method)
		r.Check(len(cs) == 1, "C02.1", "callers("+sp.method+")", "", fmt.Sprintf("production call sites: %v", uniqueFns(cs)))
		for _, c := range cs {
			recorders[FuncName(c.Fn)] = sp
			checkRecorder(r, c.Fn, c.Instr, sp)
		}
	}
	// saves are called only from the recorders
	for _, sp := range specs {
		for _, c := range w.CallersOf(prod, sp.save) {
			_, ok := recorders[FuncName(c.Fn)]
			r.Check(ok, "C02.1", "caller("+sp.save+")@"+FuncName(c.Fn), w.InstrPos(c.Instr), "actions are recorded only by the signing functions")
		}
	}

	// ---- C02.3 sends of StateMachineRoundAction
	ord := Ord{}
	for _, fn := range prod {
		if strings.HasSuffix(pkgPathOf(fn), "internal/gchan") {
			continue // the send wrappers themselves; their call sites are the sends
		}
		a := w.A(fn)
		for _, s := range a.Sends() {
			if TypeName(s.Val.Type()) != "tmeil.StateMachineRoundAction" {
				continue
			}
			con := ord.Next(FuncName(fn) + "#send-action")
			if _, ok := recorders[FuncName(fn)]; ok {
				r.Pass("C02.3", con, w.InstrPos(s.Instr), "recording function")
				continue
			}
			v := a.sh.Of(s.Val)
			_, ok := Match("lit:tmeil.StateMachineRoundAction{PH:@@tmstore.ActionStore.LoadActions($...)#0.ProposedHeader}", v)
			r.Check(ok, "C02.3", con, w.InstrPos(s.Instr), "an action sent outside the recording functions must be a previously recorded one loaded from the action store: "+truncate(v.String(), 200))
		}
	}
	r.Expect("C02.3", 4, "sends of state machine actions")

	// ---- C02.4 / C02.5 latch in the event loop
	var loopFns = map[*ssa.Function]bool{}
	for name, sp := range recorders {
		calls := w.CallersOf(prod, name)
		if len(calls) == 0 {
			r.Fail("C02.5", "callers("+name+")", "", "recording function is never called")
		}
		for _, c := range calls {
			loopFns[c.Fn] = true
			a := w.A(c.Fn)
			con := FuncName(c.Fn) + "->" + name
			// the call must be in a select case receiving from rlc.<latch>
			sel := selectRecvGuard(a, c.Instr, sp.latch)
			r.Check(sel, "C02.5", con, w.InstrPos(c.Instr), "the recording function must be called only in the select case that received from rlc."+sp.latch)
			// latch: every path from the call to a continuing return stores nil to the field
			ok, wit := AllPathsAfterHit(c.Instr, func(in ssa.Instruction) bool {
				switch x := in.(type) {
				case *ssa.Store:
					if fa, ok := x.Addr.(*ssa.FieldAddr); ok && fieldName(fa.X.Type(), fa.Field) == sp.latch && TypeName(fa.X.Type()) == "tsi.RoundLifecycle" {
						if k, ok := x.Val.(*ssa.Const); ok && k.Value == nil {
							return true
						}
					}
				case *ssa.Return:
					// a return of false stops the kernel: exempt
					if len(x.Results) == 1 && a.sh.Of(x.Results[0]).String() == "false" {
						return true
					}
				}
				return false
			})
			det := "every continuing path after recording clears rlc." + sp.latch
			if !ok && wit != nil {
				det += "; a path reaches " + w.InstrPos(wit) + " with the channel still armed"
			}
			r.Check(ok, "C02.4", con+"(latch)", w.InstrPos(c.Instr), det)
		}
	}
	// channels become non-nil only in Reset
	tsiFns := append(w.FuncsInPkg("tmstate/internal/tsi"), w.FuncsInPkg("tmengine/internal/tmstate")...)
	for _, f := range []string{"ProposalCh", "PrevoteHashCh", "PrecommitHashCh"} {
		for _, fw := range w.FieldWrites(tsiFns, "tsi.RoundLifecycle", f) {
			if fw.Kind != "store" {
				continue
			}
			isNil := false
			if k, ok := fw.Val.(*ssa.Const); ok && k.Value == nil {
				isNil = true
			}
			con := fmt.Sprintf("write(%s)@%s", f, FuncName(fw.Fn))
			if isNil {
				r.Pass("C02.4", con+"(nil)", w.InstrPos(fw.Instr), "disarming store")
				continue
			}
			_, isMake := fw.Val.(*ssa.MakeChan)
			r.Check(FuncName(fw.Fn) == "tsi.RoundLifecycle.Reset" && isMake, "C02.4", con+"(arm)", w.InstrPos(fw.Instr), "per-round channel may be (re)created only by RoundLifecycle.Reset")
		}
	}
	r.Expect("C02.4", 9, "latch obligations")

	// ---- C02.6 Reset call sites
	resets := w.CallersOf(prod, "tsi.RoundLifecycle.Reset")
	for _, c := range resets {
		// a helper split off from its only caller counts as that caller
		owner := w.OwnerIn(c.Fn, func(n string) bool { return strings.HasSuffix(n, "sendInitialActionSet") })
		a := w.AU(owner)
		recv := a.sh.Of(CallArg(c.Instr, 0)).String()
		h := a.sh.Of(CallArg(c.Instr, 2)).String()
		rd := a.sh.Of(CallArg(c.Instr, 3)).String()
		con := ord.Next(FuncName(c.Fn) + "#reset")
		ok := false
		why := ""
		switch {
		case h == "("+recv+".H + 1)" && rd == "0":
			ok, why = true, "next height, round 0"
		case h == recv+".H" && rd == "("+recv+".R + 1)":
			ok, why = true, "same height, next round"
		case strings.HasSuffix(FuncName(owner), "sendInitialActionSet"):
			// start-up: position from the store (+1 when a finalization exists)
			ok = strings.Contains(h, "StateMachineHeightRound") || strings.Contains(h, "InitialHeight")
			why = "start-up position from the state machine store / genesis"
		}
		r.Check(ok, "C02.6", con, w.InstrPos(c.Instr), fmt.Sprintf("Reset(%s, %s): %s", truncate(h, 120), truncate(rd, 80), why))
	}
	r.Expect("C02.6", 4, "Reset call sites")
	// H and R are written only by Reset
	for _, f := range []string{"H", "R"} {
		for _, fw := range w.FieldWrites(tsiFns, "tsi.RoundLifecycle", f) {
			if fw.Kind != "store" {
				continue
			}
			r.Check(FuncName(fw.Fn) == "tsi.RoundLifecycle.Reset", "C02.6", fmt.Sprintf("write(rlc.%s)@%s", f, FuncName(fw.Fn)), w.InstrPos(fw.Instr), "height/round of the round lifecycle may only be set by Reset")
		}
	}

	// ---- C02.8 the shipped action store refuses and remembers (restart safety rests on it)
	freshActionsChannel(r, "C02.9")
	startupProposalSuppression(r, "C02.10")
	r.Rule("C02.8", "the shipped ActionStore refuses a second action of a kind per (height, round) and a changed key, and keeps every action already recorded for the round when another is added (same rules as C16.2)")
	actionStoreRules(r, "C02.8")

	// ---- C02.7 confinement
	n := 0
	for _, fn := range w.FuncsInPkg("tmengine/internal/tmstate") {
		a := w.A(fn)
		a.Instrs(func(in ssa.Instruction) {
			var args []ssa.Value
			what := ""
			switch x := in.(type) {
			case *ssa.Go:
				args = x.Call.Args
				if mc, ok := x.Call.Value.(*ssa.MakeClosure); ok {
					args = append(args, mc.Bindings...)
				}
				what = "go statement"
			case *ssa.Send:
				args = []ssa.Value{x.X}
				what = "channel send"
			default:
				return
			}
			for _, arg := range args {
				if TypeName(arg.Type()) == "tsi.RoundLifecycle" && strings.HasPrefix(arg.Type().String(), "*") {
					n++
					r.Fail("C02.7", fmt.Sprintf("%s#escape%d", FuncName(fn), n), w.InstrPos(in), "*RoundLifecycle escapes its goroutine through a "+what)
				}
			}
		})
	}
	if n == 0 {
		r.Pass("C02.7", "tmstate", "", "no *RoundLifecycle reaches a go statement or a channel send")
	}
}

func checkRecorder(r *Run, fn *ssa.Function, signCall ssa.Instruction, sp signSpec) {
	w := r.W
	a := w.A(fn)
	name := FuncName(fn)
	saves := a.CallsTo(sp.save)
	var sends []SendSite
	for _, s := range a.Sends() {
		if TypeName(s.Val.Type()) == "tmeil.StateMachineRoundAction" {
			sends = append(sends, s)
		}
	}
	if len(saves) != 1 || len(sends) != 1 {
		r.Fail("C02.2", name+"(shape)", w.Pos(fn.Pos()), fmt.Sprintf("expected exactly one action save and one action send next to the signing call; found %d saves, %d sends", len(saves), len(sends)))
		return
	}
	save, send := saves[0], sends[0]
	signShape := a.sh.Of(signCall.(ssa.Value))
	// order
	r.Check(Dominates(signCall, save), "C02.2", name+"(sign-before-save)", w.InstrPos(save), "the action is saved only after it was signed")
	r.Check(Dominates(save, send.Instr), "C02.2", name+"(save-before-send)", w.InstrPos(send.Instr), "the action is released only after it was saved")
	e, _ := a.IfEdgesB("($save == nil)", true, Bind{"$save": a.sh.Of(save.(ssa.Value))}, nil)
	r.Check(len(e) > 0 && a.EveryPathTakes(send.Instr, e), "C02.2", name+"(save-ok-before-send)", w.InstrPos(send.Instr), "the send is reachable only on the nil-error edge of the save")
	// the signature is produced without error
	if sp.isVote {
		e2, _ := a.IfEdgesB("($sign#2 == nil)", true, Bind{"$sign": signShape}, nil)
		r.Check(len(e2) > 0 && a.EveryPathTakes(save, e2), "C02.2", name+"(sign-ok)", w.InstrPos(save), "save only after the signer returned no error")
		// same signature saved and sent; target is (rlc.H, rlc.R, chosen hash)
		vt := a.sh.Of(CallArg(signCall, 2))
		rl := rlcParam(fn)
		b, ok := Match("lit:tmconsensus.VoteTarget{Height:"+rl+".H,Round:"+rl+".R,BlockHash:$hash}", vt)
		r.Check(ok && b["$hash"].K == "param", "C02.2", name+"(target)", w.InstrPos(signCall), "the signed target is (rlc.H, rlc.R, hash chosen by the strategy): "+vt.String())
		savedVT := a.sh.Of(CallArg(save, 3)).String()
		savedSig := a.sh.Of(CallArg(save, 4)).String()
		r.Check(savedVT == vt.String() && savedSig == signShape.String()+"#1", "C02.2", name+"(saved-value)", w.InstrPos(save), "the store records the signed target and the signature just produced: "+savedVT+" / "+savedSig)
		sv := a.sh.Of(send.Val)
		pat := "lit:tmeil.StateMachineRoundAction{" + sp.actFld + ":lit:tmeil.ScopedSignature{TargetHash:$hash,SignContent:$sign#0,Sig:$sign#1}}"
		bb := Bind{"$sign": signShape}
		if ok {
			bb["$hash"] = b["$hash"]
		}
		okS := Unify(ParsePattern(pat), sv, bb)
		r.Check(okS, "C02.2", name+"(sent-value)", w.InstrPos(send.Instr), "the action sent carries exactly the saved signature and target: "+truncate(sv.String(), 220))
	} else {
		// proposed header: sign error checked; same header saved and sent
		e2, _ := a.IfEdgesB("($sign == nil)", true, Bind{"$sign": signShape}, nil)
		r.Check(len(e2) > 0 && a.EveryPathTakes(save, e2), "C02.2", name+"(sign-ok)", w.InstrPos(save), "save only after the signer returned no error")
		// the header signed, saved and sent is the same local
		signed := CallArg(signCall, 2) // pointer to ph
		saved := CallArg(save, 2)
		sameVar := false
		if ld, ok := saved.(*ssa.UnOp); ok && ld.Op == token.MUL && ld.X == signed {
			sameVar = true
		}
		r.Check(sameVar, "C02.2", name+"(saved-value)", w.InstrPos(save), "the header saved is the one that was signed")
		sentOK := false
		sv := a.sh.Of(send.Val)
		if lit, ok := send.Val.(*ssa.UnOp); ok {
			_ = lit
		}
		// literal {PH: *ph}
		a.Instrs(func(in ssa.Instruction) {
			if st, ok := in.(*ssa.Store); ok {
				if fa, ok := st.Addr.(*ssa.FieldAddr); ok && fieldName(fa.X.Type(), fa.Field) == "PH" && TypeName(fa.X.Type()) == "tmeil.StateMachineRoundAction" {
					if ld, ok := st.Val.(*ssa.UnOp); ok && ld.Op == token.MUL && ld.X == signed {
						sentOK = true
					}
				}
			}
		})
		r.Check(sentOK, "C02.2", name+"(sent-value)", w.InstrPos(send.Instr), "the header sent is the one that was signed and saved: "+truncate(sv.String(), 120))
		// height/round of the proposal are the lifecycle's
		phShape := a.sh.allocObject(signed.(*ssa.Alloc))
		rl := rlcParam(fn)
		hOK, rOK := false, false
		if phShape.K == "lit" {
			for i, f := range phShape.F {
				if f == "Round" && strings.Contains(phShape.A[i].String(), rl+".R") {
					rOK = true
				}
				if f == "Header" && strings.Contains(phShape.A[i].String(), "Height:"+rl+".H") {
					hOK = true
				}
			}
		}
		r.Check(hOK && rOK, "C02.2", name+"(target)", w.InstrPos(signCall), "the proposed header is for (rlc.H, rlc.R)")
	}
	// the send goes to the lifecycle's outgoing actions channel
	ch := a.sh.Of(send.Chan).String()
	r.Check(strings.HasSuffix(ch, ".OutgoingActionsCh"), "C02.2", name+"(channel)", w.InstrPos(send.Instr), "sent on "+ch)
}

func rlcParam(fn *ssa.Function) string {
	for i, p := range fn.Params {
		if TypeName(p.Type()) == "tsi.RoundLifecycle" {
			return fmt.Sprintf("p%d", i)
		}
	}
	return "p?"
}

// selectRecvGuard: the instruction is only reachable through the select case
// that received from a channel loaded from field <latch> of a RoundLifecycle.
func selectRecvGuard(a *FnA, target ssa.Instruction, latch string) bool {
	var edges []Edge
	for _, b := range a.blocks() {
		if len(b.Instrs) == 0 {
			continue
		}
		ifi, ok := b.Instrs[len(b.Instrs)-1].(*ssa.If)
		if !ok {
			continue
		}
		bo, ok := ifi.Cond.(*ssa.BinOp)
		if !ok || bo.Op != token.EQL {
			continue
		}
		ex, ok := bo.X.(*ssa.Extract)
		if !ok || ex.Index != 0 {
			continue
		}
		sel, ok := ex.Tuple.(*ssa.Select)
		if !ok {
			continue
		}
		k, ok := bo.Y.(*ssa.Const)
		if !ok {
			continue
		}
		idx, ok := constInt(k)
		if !ok || idx >= len(sel.States) {
			continue
		}
		chs := a.sh.Of(sel.States[idx].Chan).String()
		if strings.HasSuffix(chs, "."+latch) {
			edges = append(edges, Edge{b, 0})
		}
	}
	return len(edges) > 0 && a.EveryPathTakes(target, edges)
}
