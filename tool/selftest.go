package main

import (
	"fmt"
	"go/ast"
	"go/parser"
	"go/token"
	"os"
	"os/exec"
	"path/filepath"
	"regexp"
	"sort"
	"strings"
	"sync"
)

// The checker's own sensitivity test (DESIGN.md §3.4). Each Mutant is a small
// edit of the real source, located by function and a pattern inside it, that
// breaks one rule instance while the tree still type-checks. The edited file
// is given to go/packages as an overlay in a child process (nothing is written
// into /repo), the property's rules are run on that variant, and at least one
// obligation of the expected rule must fail that does not fail on the real
// tree. Patterns only locate the edit; rules never see them. An operator whose
// pattern no longer applies is reported as skipped.

type Mutant struct {
	Prop   string
	Name   string
	File   string // relative to /repo
	Func   string // "Recv.Name" or "Name": restricts the search to this declaration ("" = whole file)
	Find   string // regexp
	Repl   string
	Expect []string // rule ids, one of which must report a new failure
}

var mutants []Mutant

func addMutants(ms ...Mutant) { mutants = append(mutants, ms...) }

// apply returns the mutated file content, or ok=false when the operator does not apply.
func (m *Mutant) apply() (content []byte, ok bool, why string) {
	path := filepath.Join(repoDir(), m.File)
	src, err := os.ReadFile(path)
	if err != nil {
		return nil, false, "file not found"
	}
	lo, hi := 0, len(src)
	if m.Func != "" {
		fset := token.NewFileSet()
		f, err := parser.ParseFile(fset, path, src, parser.SkipObjectResolution)
		if err != nil {
			return nil, false, "file does not parse"
		}
		found := false
		for _, d := range f.Decls {
			fd, isFn := d.(*ast.FuncDecl)
			if !isFn {
				continue
			}
			name := fd.Name.Name
			if fd.Recv != nil && len(fd.Recv.List) == 1 {
				t := fd.Recv.List[0].Type
				if st, ok := t.(*ast.StarExpr); ok {
					t = st.X
				}
				if ix, ok := t.(*ast.IndexExpr); ok {
					t = ix.X
				}
				if ix, ok := t.(*ast.IndexListExpr); ok {
					t = ix.X
				}
				if id, ok := t.(*ast.Ident); ok {
					name = id.Name + "." + name
				}
			}
			if name == m.Func {
				lo, hi = fset.Position(fd.Pos()).Offset, fset.Position(fd.End()).Offset
				found = true
			}
		}
		if !found {
			return nil, false, "function " + m.Func + " not found"
		}
	}
	re, err := regexp.Compile(m.Find)
	if err != nil {
		return nil, false, "bad pattern: " + err.Error()
	}
	seg := src[lo:hi]
	loc := re.FindSubmatchIndex(seg)
	if loc == nil {
		return nil, false, "pattern does not match"
	}
	var repl []byte
	repl = re.Expand(repl, []byte(m.Repl), seg, loc)
	out := append([]byte{}, src[:lo+loc[0]]...)
	out = append(out, repl...)
	out = append(out, src[lo+loc[1]:]...)
	return out, true, ""
}

type mutResult struct {
	m       *Mutant
	status  string // killed | missed | skipped | invalid
	detail  string
	newFail []string
}

func selftestMain(args []string) int {
	var ids []string
	jobs := 3
	for i := 0; i < len(args); i++ {
		switch {
		case args[i] == "-j" && i+1 < len(args):
			fmt.Sscanf(args[i+1], "%d", &jobs)
			i++
		default:
			ids = append(ids, args[i])
		}
	}
	if len(ids) == 0 {
		ids = []string{"all"}
	}
	code := 0
	for _, id := range ids {
		res, c := selftestRun(id, jobs)
		for _, r := range res {
			fmt.Printf("mutant %-4s %-44s %-8s %s\n", r.m.Prop, r.m.Name, r.status, r.detail)
		}
		if c != 0 {
			code = c
		}
	}
	return code
}

// selftestRun runs the mutants of one property (or all). Exit code 0 when every
// applicable mutant is reported by an expected rule.
func selftestRun(id string, jobs int) ([]mutResult, int) {
	var sel []*Mutant
	for i := range mutants {
		if id == "all" || mutants[i].Prop == id {
			sel = append(sel, &mutants[i])
		}
	}
	if jobs <= 0 {
		jobs = 3
	}
	self, err := os.Executable()
	if err != nil {
		return nil, 2
	}
	results := make([]mutResult, len(sel))
	sem := make(chan struct{}, jobs)
	var wg sync.WaitGroup
	for i, m := range sel {
		results[i].m = m
		content, ok, why := m.apply()
		if !ok {
			results[i].status, results[i].detail = "skipped", why
			continue
		}
		wg.Add(1)
		go func(i int, m *Mutant, content []byte) {
			defer wg.Done()
			sem <- struct{}{}
			defer func() { <-sem }()
			tmp, err := os.CreateTemp("", "gverif-mutant-*.go")
			if err != nil {
				results[i].status, results[i].detail = "invalid", err.Error()
				return
			}
			defer os.Remove(tmp.Name())
			tmp.Write(content)
			tmp.Close()
			out, _ := exec.Command(self, "mutant", m.Prop, m.File, tmp.Name()).CombinedOutput()
			text := string(out)
			switch {
			case strings.Contains(text, "MUTLOAD-ERROR"):
				results[i].status = "invalid"
				results[i].detail = "variant does not type-check: " + truncate(oneLine(text), 200)
				return
			case !strings.Contains(text, "MUTDONE"):
				results[i].status = "invalid"
				results[i].detail = "child failed: " + truncate(oneLine(text), 200)
				return
			}
			var fails []string
			for _, ln := range strings.Split(text, "\n") {
				if k, ok := strings.CutPrefix(ln, "MUTFAIL\t"); ok {
					fails = append(fails, k)
				}
			}
			sort.Strings(fails)
			results[i].newFail = fails
			hit := ""
			for _, k := range fails {
				for _, e := range m.Expect {
					if strings.HasPrefix(k, e+"/") {
						hit = k
					}
				}
			}
			if hit != "" {
				results[i].status, results[i].detail = "killed", "reported by "+truncate(hit, 120)
			} else {
				results[i].status = "missed"
				results[i].detail = fmt.Sprintf("expected a new failure of %v, got %v", m.Expect, fails)
			}
		}(i, m, content)
	}
	wg.Wait()
	code := 0
	for _, r := range results {
		if r.status == "missed" || r.status == "invalid" {
			code = 2
		}
	}
	return results, code
}

// mutantChild: run one property's rules on the tree with one file replaced and
// print the obligations that fail and are not listed known findings.
func mutantChild(args []string) int {
	if len(args) < 3 {
		return 2
	}
	id, rel, tmp := args[0], args[1], args[2]
	meta, ok := registry[id]
	if !ok {
		fmt.Println("MUTLOAD-ERROR no such property")
		return 2
	}
	content, err := os.ReadFile(tmp)
	if err != nil {
		fmt.Println("MUTLOAD-ERROR", err)
		return 2
	}
	w, err := LoadWorld("", map[string][]byte{filepath.Join(repoDir(), rel): content})
	if err != nil {
		fmt.Println("MUTLOAD-ERROR", oneLine(err.Error()))
		return 3
	}
	run := &Run{Prop: id, Tier: "quick", W: w, config: "mutant"}
	func() {
		defer func() {
			if e := recover(); e != nil {
				run.Fail("analyser", "panic", "", fmt.Sprint(e))
			}
		}()
		meta.Run(run)
	}()
	for _, k := range run.newFailures() {
		fmt.Println("MUTFAIL\t" + k)
	}
	fmt.Println("MUTDONE")
	return 0
}
