package main

import "fmt"

// selftest machinery is in selftest_impl.go once mutants are defined.
func selftestMain(args []string) int {
	id := "all"
	if len(args) > 0 {
		id = args[0]
	}
	return selftestRun(id, 0, false)
}

func selftestRun(id string, jobs int, quiet bool) int {
	if !quiet {
		fmt.Println("selftest: no mutants registered yet for", id)
	}
	return 0
}
