#!/bin/bash
# try.sh <seed-name> [ids...] — apply a seeded patch, run matrix for the given ids, undo
n=$1; shift
(cd /repo && git diff --quiet) || { echo "/repo not clean"; exit 2; }
git -C /repo apply /verif/seeded/$n/patch.diff || exit 3
cd /verif && ./check matrix "$@" 2>&1 | grep -E "FAIL|UNDECIDED|panic|obligations" | cut -c1-260
git -C /repo checkout -- .
