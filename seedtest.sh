#!/bin/bash
# seedtest.sh <ID> [name]  — confirm a seeded change from /tmp/wtout/<ID> in a scratch worktree,
# archive it under /verif/seeded/<name>, then run the /verif checks against it.
set -u
ID=$1; NAME=${2:-$ID}
SRC=${SRCBASE:-/tmp/wtout}/$ID
DST=/verif/seeded/$NAME
export PATH=/opt/veriftools/go1.26.8/bin:$PATH GOTOOLCHAIN=local GOFLAGS=-mod=mod GOPROXY=off GOSUMDB=off
[ -f $SRC/patch.diff ] || { echo "no patch"; exit 2; }
WT=/tmp/confirm/$NAME
rm -rf $WT; mkdir -p /tmp/confirm
git -C /repo worktree prune
git -C /repo worktree add -q --detach $WT HEAD || exit 2
cleanup() { git -C /repo worktree remove --force $WT 2>/dev/null; }
trap cleanup EXIT
cd $WT
if ! git apply --check $SRC/patch.diff 2>/dev/null; then echo "PATCH DOES NOT APPLY to current HEAD"; exit 3; fi
git apply $SRC/patch.diff
# place demo files
DEMOCMD=""
if [ -f $SRC/demo_path.txt ]; then cat $SRC/demo_path.txt | head -20; fi
echo "--- place demo files manually listed in env DEMOFILES='src:dst ...' and DEMORUN='go test ...'"
for pair in ${DEMOFILES:-}; do s=${pair%%:*}; d=${pair##*:}; mkdir -p $(dirname $WT/$d); cp $SRC/$s $WT/$d; done
go build ./... || { echo "BUILD FAILS with patch"; exit 4; }
echo "=== demo WITH change (expect FAIL)"
( eval "${DEMORUN}" ) > /tmp/confirm/$NAME.with.log 2>&1; W=$?; tail -5 /tmp/confirm/$NAME.with.log
git apply -R $SRC/patch.diff
echo "=== demo WITHOUT change (expect PASS)"
( eval "${DEMORUN}" ) > /tmp/confirm/$NAME.without.log 2>&1; WO=$?; tail -3 /tmp/confirm/$NAME.without.log
git apply $SRC/patch.diff
echo "demo_with_change_exit=$W demo_without_change_exit=$WO"
if [ "${SKIPSUITE:-0}" != 1 ]; then
  echo "=== baseline suite with change (demo files removed)"
  for pair in ${DEMOFILES:-}; do d=${pair##*:}; rm -f $WT/$d; done
  /verif/run_baseline.py $WT ./... | tail -8
fi
mkdir -p $DST; cp $SRC/patch.diff $DST/; for pair in ${DEMOFILES:-}; do s=${pair%%:*}; cp $SRC/$s $DST/; done
[ -f $SRC/demo_path.txt ] && cp $SRC/demo_path.txt $DST/
[ -f $SRC/meta.json ] && cp $SRC/meta.json $DST/agent_meta.json
echo "W=$W WO=$WO" > $DST/confirm.txt
