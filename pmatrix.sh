#!/bin/bash
# pmatrix.sh <outfile> <patch>... — run ./check matrix for each patch in parallel scratch worktrees of /repo
# (GVERIF_REPO points the checker at the worktree; /repo itself is not touched). One line per patch:
#   <patch path> :: <failing rule/construct keys or "silent">
OUT=$1; shift
J=${J:-6}
cd /verif; ./check setup >/dev/null 2>&1
export PATH=/opt/veriftools/go1.26.8/bin:$PATH GOTOOLCHAIN=local GOFLAGS=-mod=mod GOPROXY=off GOSUMDB=off GOWORK=off
git -C /repo worktree prune
: > $OUT
printf '%s\n' "$@" > /tmp/pmatrix.$$.list
worker() {
  i=$1; WT=/tmp/mx/$$w$i
  rm -rf $WT; git -C /repo worktree add -q --detach $WT HEAD || exit 1
  awk -v i=$i -v j=$J 'NR % j == i % j' /tmp/pmatrix.$$.list | while read p; do
    if ! git -C $WT apply $p 2>/dev/null; then echo "$p :: DOES-NOT-APPLY" >> $OUT; continue; fi
    raw=$(GVERIF_REPO=$WT /verif/bin/gverif matrix 2>&1 | grep -E "FAIL|UNDECIDED|cannot load" | sed 's/^ *//')
    [ -n "${DET:-}" ] && echo "$raw" | grep -v '^$' > $(dirname $p)/detected.txt
    res=$(echo "$raw" | awk '{print $3}' | sort -u | tr '\n' ' ')
    git -C $WT checkout -q -- . ; git -C $WT clean -fdq
    echo "$p :: ${res:-silent}" >> $OUT
  done
  git -C /repo worktree remove --force $WT
}
mkdir -p /tmp/mx
for i in $(seq 1 $J); do worker $i & done
wait
sort $OUT -o $OUT
